"""Command line: ./check <ID> quick|thorough ; ./check --replay <file> ; ./check selftest."""
from __future__ import annotations

import argparse
import faulthandler
import hashlib
import json
import multiprocessing as mp
import os
import subprocess
import sys
import time
from collections import Counter
from concurrent.futures import FIRST_COMPLETED, ProcessPoolExecutor, wait

from . import env

faulthandler.enable()

VERIF = env.VERIF
PY = sys.executable


def _warm():
    env.import_lightworks()
    from . import engine, faults, ops, profiles, seams  # noqa: F401, PLC0415
    import lightworks as lw  # noqa: PLC0415
    from lightworks import emulator as emu  # noqa: PLC0415

    c = lw.Circuit(2)
    c.bs(0)
    s = emu.Sampler(c, lw.State([1, 1]))
    s.probability_distribution  # noqa: B018
    emu.Sampler(c, lw.State([1, 1]), backend="slos").probability_distribution  # noqa: B018
    lw.Display(c)
    # thewalrus compiles its permanent routine on the first matrix of four or
    # more photons, per dtype and memory layout: do it once in the parent so
    # that no forked run pays for it
    import numpy as np  # noqa: PLC0415
    from thewalrus import perm  # noqa: PLC0415
    for dt in (complex, float):
        a = np.ones((4, 4), dtype=dt)
        perm(a)
        perm(np.asfortranarray(a))
        perm(np.ones((8, 8), dtype=dt)[::2, ::2])
    u = lw.Unitary(lw.random_unitary(4, seed=1))
    emu.Simulator(u).simulate(lw.State([1, 1, 1, 1]), [lw.State([1, 1, 1, 1])])


def run_seed(verif_seed: int, profile: str, i: int) -> int:
    from .engine import h_seed  # noqa: PLC0415
    return h_seed(verif_seed, profile, i)


def _ngrams(ops, n=4):
    ks = [o.get("cl", "?")[:3] + ":" + o["op"] for o in ops]
    return {hashlib.sha256("|".join(ks[i:i + n]).encode()).hexdigest()[:12]
            for i in range(max(0, len(ks) - n + 1))}


def _worker(args):
    """Runs a chunk of run indices, each in its own forked child."""
    profile, verif_seed, idxs, per_run_timeout, keep_ops = args
    from .engine import ChildFailed, fork_call, run_one  # noqa: PLC0415

    out = []
    for i in idxs:
        seed = run_seed(verif_seed, profile, i)
        try:
            res = fork_call(run_one, (profile, seed), timeout=per_run_timeout)
        except ChildFailed as e:
            out.append({"i": i, "seed": seed,
                        "timeout": str(e).startswith("timeout"),
                        "harness_error": f"run {i} (seed {seed}): " + str(e)[-3000:]})
            continue
        rec = {"i": i, "seed": seed, "digest": res["digest"],
               "steps": res["steps"], "stats": res["stats"],
               "shape": res["shape"], "wall": res["wall"],
               "violations": res["violations"],
               "grams": sorted(_ngrams(res["ops"])),
               "faulty": bool(res["cfg"].get("faults"))}
        if res["violations"] or i < keep_ops:
            rec["ops"] = res["ops"]
            rec["cfg"] = res["cfg"]
        out.append(rec)
    return out


def _init_worker():
    faulthandler.enable()


def load_known():
    p = os.path.join(VERIF, "known_findings.json")
    if not os.path.exists(p):
        return {"findings": [], "fixed": []}
    with open(p) as f:
        return json.load(f)


def match_known(v: dict, known: dict):
    for f in known.get("findings", []):
        if f["property"] != v["property"]:
            continue
        if f.get("monitor") not in (None, v["monitor"]):
            continue
        if all(str(v["sig"].get(k)) == str(x) for k, x in f["match"].items()):
            return f
    return None


def batch(prop: str, tier: str, verif_seed: int, n_runs: int | None = None,
          workers: int | None = None, wall_cap: float | None = None,
          quiet: bool = False, do_selfcheck: bool = True) -> int:
    from . import profiles  # noqa: PLC0415
    from .shrink import ddmin, vclass  # noqa: PLC0415

    t0 = time.time()
    profiles.TIER = tier
    os.environ["LABSIM_TIER"] = tier
    profile = profiles.get(prop)
    if n_runs is None:
        n_runs = profile.runs[tier]
    if wall_cap is None:
        wall_cap = float(os.environ.get(
            "LABSIM_WALL_CAP", 300.0 if tier == "quick" else 2700.0))
    workers = workers or min(16, os.cpu_count() or 4)
    print(f"VERIF_SEED={verif_seed} property={prop} tier={tier} runs={n_runs} "
          f"workers={workers}", flush=True)
    _warm()
    known = load_known()
    chunk = 4
    tasks = [(prop, verif_seed, list(range(a, min(a + chunk, n_runs))),
              profile.run_timeout, 3)
             for a in range(0, n_runs, chunk)]
    recs = []
    harness_errors = []
    timed_out = []
    truncated = False
    ctx = mp.get_context("fork")
    # tasks are handed out in index order, a bounded number in flight, so that
    # when the soft wall budget runs out the runs completed are a prefix-like
    # set of the seed sequence; the batch then ends early (recorded in the
    # evidence) instead of failing
    t_batch = time.time()
    with ProcessPoolExecutor(max_workers=workers, mp_context=ctx,
                             initializer=_init_worker) as ex:
        pending = set()
        it = iter(tasks)
        exhausted = False
        while True:
            while not exhausted and not truncated and len(pending) < workers * 3:
                t = next(it, None)
                if t is None:
                    exhausted = True
                    break
                pending.add(ex.submit(_worker, t))
            if not pending:
                break
            done, pending = wait(pending, timeout=30, return_when=FIRST_COMPLETED)
            for f in done:
                for r in f.result():
                    if r.get("timeout"):
                        # a session that ran into the per-run wall limit is
                        # recorded and skipped; it is neither a violation nor a
                        # reason to distrust the other runs
                        timed_out.append(r)
                    elif "harness_error" in r:
                        harness_errors.append(r)
                    else:
                        recs.append(r)
            if time.time() - t_batch > wall_cap and not exhausted:
                truncated = True
    recs.sort(key=lambda r: r["i"])
    wall_runs = time.time() - t0

    # ---- aggregate
    stats: Counter = Counter()
    digests, shapes, grams = set(), set(), set()
    steps = 0
    n_faulty = 0
    for r in recs:
        for k, v in r["stats"].items():
            stats[k] += v
        digests.add(r["digest"])
        shapes.add(r["shape"])
        grams.update(r["grams"])
        steps += r["steps"]
        n_faulty += int(r["faulty"])

    # ---- determinism spot check (same seeds again; fresh interpreters with
    # two other hash seeds)
    det = {"checked": 0, "mismatch": 0, "hashseed_checked": 0,
           "hashseed_mismatch": 0}
    if do_selfcheck and recs:
        k = profile.det_runs[tier]
        again = []
        with ProcessPoolExecutor(max_workers=workers, mp_context=ctx) as ex:
            for out in ex.map(_worker, [(prop, verif_seed, [i], profile.run_timeout, 0)
                                        for i in range(min(k, n_runs))]):
                again.extend(out)
        first = {r["i"]: r["digest"] for r in recs}
        for r in again:
            if "digest" in r and r["i"] in first:
                det["checked"] += 1
                if r["digest"] != first[r["i"]]:
                    det["mismatch"] += 1
                    det.setdefault("mismatch_runs", []).append(r["i"])
        kk = profile.hash_runs[tier]
        for hs in profile.hash_seeds[tier]:
            d = _digests_fresh(prop, verif_seed, min(kk, n_runs), hs,
                               simset=None)
            for i, dg in d.items():
                if i in first:
                    det["hashseed_checked"] += 1
                    if dg.rstrip("!") != first[i]:
                        det["hashseed_mismatch"] += 1
                        det.setdefault("hashseed_mismatch_runs", []).append([hs, i])
        # cross-check that the SimSet shim misrepresents nothing: a slice of the
        # batch re-executed in fresh interpreters under real PYTHONHASHSEED
        # values *without* the shim must not violate the property either
        if getattr(profile, "real_hash_check", False):
            det["real_hash_runs"] = 0
            det["real_hash_violations"] = 0
            for hs in profile.hash_seeds[tier]:
                d = _digests_fresh(prop, verif_seed, min(kk * 4, n_runs), hs,
                                   noshim=True)
                det["real_hash_runs"] += len(d)
                det["real_hash_violations"] += sum(1 for x in d.values() if x.endswith("!"))
            if det["real_hash_violations"]:
                harness_errors.append({"i": -1, "harness_error":
                                       "violation under a real PYTHONHASHSEED without the "
                                       f"SimSet shim only: {det} (run ./check --digests with "
                                       "LABSIM_NOSHIM=1 to find it)"})
        if det["mismatch"] or det["hashseed_mismatch"]:
            # recorded, not fatal: a digest that differs between two executions
            # of the same seed means the *library under test* behaved
            # nondeterministically on that run (the harness itself is proven
            # deterministic by `./check selftest`); violations are still only
            # reported after their replay reproduced in a fresh interpreter
            print(f"NOTE: determinism spot check found differing digests: {det}",
                  flush=True)

    # ---- violations
    reported = []
    unreproduced: dict = {}
    known_hit: dict[str, int] = Counter()
    seen_classes = set()
    os.makedirs(os.path.join(VERIF, "replays"), exist_ok=True)
    n_viol_runs = 0
    for r in recs:
        if not r["violations"]:
            continue
        v = r["violations"][0]
        kf = match_known(v, known)
        if kf is not None:
            known_hit[kf["id"]] += 1
            continue
        n_viol_runs += 1
        vc = vclass(v)
        if vc in seen_classes or len(reported) >= 3:
            continue
        seen_classes.add(vc)
        mops, final, tests = ddmin(prop, r["seed"], r["cfg"], r["ops"], vc,
                                   budget_s=60.0 if tier == "quick" else 180.0)
        if final is None:
            # the original did not re-produce in a forked child.  When the
            # defect itself is a nondeterminism of the library (e.g. an order
            # taken from memory addresses) a particular run need not repeat:
            # other runs of the same class are tried before giving up
            unreproduced.setdefault(vc, []).append(
                {"i": r["i"], "harness_error":
                 "violation did not reproduce in a forked child: "
                 + json.dumps(v, default=str)[:500]})
            if len(unreproduced[vc]) < 5:
                seen_classes.discard(vc)
            continue
        fv = [x for x in final["violations"] if vclass(x) == vc][0]
        path = os.path.join(VERIF, "replays",
                            f"{prop}-{verif_seed}-{r['i']}.json")
        with open(path, "w") as f:
            json.dump({"property": prop, "profile": prop,
                       "verif_seed": verif_seed, "run_index": r["i"],
                       "seed": r["seed"], "cfg": r["cfg"], "ops": mops,
                       "original_len": len(r["ops"]), "shrink_tests": tests,
                       "violation": _clean(fv)}, f, indent=1, default=str)
        ok = _replay_fresh(path)
        if ok:
            reported.append((path, fv))
        else:
            unreproduced.setdefault(vc, []).append(
                {"i": r["i"], "harness_error":
                 f"replay file {path} did not reproduce in a fresh interpreter"})
            if len(unreproduced[vc]) < 5:
                seen_classes.discard(vc)
    rep_classes = {vclass(fv) for _p, fv in reported}
    for vc, errs in unreproduced.items():
        if vc not in rep_classes:
            harness_errors.append(errs[0])
    kf_by_id = {f["id"]: f for f in known.get("findings", [])}
    for fid, n in sorted(known_hit.items()):
        f = kf_by_id[fid]
        print(f"KNOWN-FINDING: property={f['property']} {f['what']} "
              f"[{fid}; hit in {n} runs]", flush=True)
    for path, fv in reported:
        print(f"VIOLATION property={prop} replay={path}", flush=True)
        print(f"  class: {json.dumps(fv['sig'], default=str)}  {fv['detail']}",
              flush=True)

    # ---- evidence
    wall = time.time() - t0
    faults = {k[6:]: v for k, v in stats.items() if k.startswith("fault:")}
    probes = {k[6:]: v for k, v in stats.items() if k.startswith("probe:")}
    opsc = {k[3:]: v for k, v in stats.items() if k.startswith("op:")}
    zero = [p for p in profile.expected_probes if not probes.get(p)]
    samples = []
    for r in recs[:2]:
        if "ops" in r:
            samples.append({"run_index": r["i"], "seed": r["seed"],
                            "first_ops": r["ops"][:10], "n_ops": len(r["ops"])})
    ev = {
        "property_id": prop, "tier": tier, "seed": verif_seed,
        "level": "exploration",
        "coverage": {
            "evaluations": len(recs),
            "distinct_nontrivial": len({r["digest"] for r in recs if r["steps"] >= 5}),
            "rule": ("one evaluation = one simulated lab session (seeded "
                     "scheduler, one public API call per step); distinct = "
                     "distinct SHA-256 event-log digest; non-trivial = at "
                     "least 5 executed steps"),
            "samples": samples,
            "steps_total": steps,
            "runs_per_hour": round(len(recs) / max(wall_runs, 1e-9) * 3600),
            "steps_per_hour": round(steps / max(wall_runs, 1e-9) * 3600),
            "simulated_time": ("n/a - the library reads no clock; logical "
                               f"steps = {steps}"),
            "fault_injecting_runs": n_faulty,
            "fault_free_runs": len(recs) - n_faulty,
            "faults_fired": faults,
            "probes": probes,
            "probes_stuck_at_zero": zero,
            "operations": opsc,
            "outcomes": {k[4:]: v for k, v in stats.items() if k.startswith("out:")},
            "distinct_world_shapes": len(shapes),
            "distinct_interleavings_4grams": len(grams),
            "determinism": det,
            "known_findings_hit": dict(known_hit),
            "violating_runs": n_viol_runs,
            "truncated_by_wall_cap": truncated,
            "runs_killed_at_per_run_time_limit": [
                {"run_index": r["i"], "seed": r["seed"]} for r in timed_out[:20]],
            "runs_killed_count": len(timed_out),
            "harness_errors": len(harness_errors),
            "real_components": "all lightworks code under /repo (working tree)",
            "stubs": profile.stubs,
            "extra": profile.extra_evidence(recs) if hasattr(profile, "extra_evidence") else {},
        },
        "assumptions": profile.assumptions,
        "wall_s": round(wall, 2),
        "violations": len(reported),
    }
    # evidence describes /repo's working tree only; runs against a scratch copy
    # of the library (LABSIM_REPO, sensitivity) leave it alone
    evdir = os.path.join(VERIF, "evidence") if env.REPO == "/repo" else \
        os.path.join("/tmp", "labsim-scratch-evidence")
    os.makedirs(evdir, exist_ok=True)
    ev["coverage"]["library_under_test"] = env.REPO
    with open(os.path.join(evdir, f"{prop}.json"), "w") as f:
        json.dump(ev, f, indent=1, default=str)
    if not quiet:
        print(f"runs={len(recs)} steps={steps} wall={wall:.1f}s "
              f"distinct_digests={len(digests)} shapes={len(shapes)} "
              f"grams={len(grams)} faults={sum(faults.values())} "
              f"known={dict(known_hit)} violating_runs={n_viol_runs} det={det}", flush=True)
        if zero:
            print(f"WARNING probes stuck at zero: {zero}", flush=True)
    if reported:
        return 1
    if harness_errors:
        for h in harness_errors[:5]:
            print("HARNESS-ERROR:", str(h.get("harness_error"))[-1500:], flush=True)
        return 2
    if timed_out:
        print(f"NOTE: {len(timed_out)} of {n_runs} sessions were stopped at the "
              f"per-run time limit ({profile.run_timeout:.0f}s) and skipped: "
              f"run indices {[r['i'] for r in timed_out[:10]]}", flush=True)
    if truncated:
        print(f"NOTE: soft wall budget ({wall_cap:.0f}s) reached; {len(recs)} of "
              f"{n_runs} planned runs completed", flush=True)
    print(f"OK property={prop} held on everything explored", flush=True)
    return 0


def _clean(v):
    return json.loads(json.dumps(v, default=str))


def _digests_fresh(prop, verif_seed, n, hashseed, simset=None,
                   noshim=False) -> dict:
    """Digests of the first n runs computed in a fresh interpreter."""
    envv = dict(os.environ)
    envv["PYTHONHASHSEED"] = str(hashseed)
    if noshim:
        envv["LABSIM_NOSHIM"] = "1"
    envv["PYTHONPATH"] = VERIF + os.pathsep + envv.get("PYTHONPATH", "")
    cmd = [PY, "-m", "labsim", "--digests", prop, str(verif_seed), str(n)]
    p = subprocess.run(cmd, capture_output=True, text=True, env=envv,
                       timeout=1200, cwd=VERIF, check=False)
    out = {}
    for line in p.stdout.splitlines():
        if line.startswith("DIGEST "):
            _, i, d = line.split()[:3]
            out[int(i)] = d
    if p.returncode != 0 or not out:
        raise RuntimeError("fresh-interpreter digest run failed: "
                           + p.stderr[-2000:])
    return out


def _replay_fresh(path) -> bool:
    envv = dict(os.environ)
    envv["PYTHONPATH"] = VERIF + os.pathsep + envv.get("PYTHONPATH", "")
    p = subprocess.run([PY, "-m", "labsim", "--replay", path],
                       capture_output=True, text=True, env=envv, timeout=600,
                       cwd=VERIF, check=False)
    return p.returncode == 1 and "VIOLATION" in p.stdout


def replay(path: str) -> int:
    from .engine import run_one  # noqa: PLC0415
    from .shrink import vclass  # noqa: PLC0415

    with open(path) as f:
        rp = json.load(f)
    _warm()
    print(f"VERIF_SEED={rp['verif_seed']} replay {path} "
          f"({len(rp['ops'])} operations)")
    res = run_one(rp["profile"], rp["seed"], rp["ops"], rp["cfg"],
                  want_events=True)
    for ev in res["events"]:
        print(f"  step {ev['i']:3d} {ev['out']:<28s} {json.dumps(ev['op'])}")
    want = rp["violation"]
    wc = (want["property"], want["monitor"],
          tuple(sorted((k, str(x)) for k, x in want["sig"].items())))
    for v in res["violations"]:
        if vclass(v) == wc:
            print(f"VIOLATION property={rp['property']} replay={path}")
            print(f"  {v['detail']}")
            return 1
    print("not reproduced: the recorded violation class did not occur")
    return 0


def digests(prop, verif_seed, n) -> int:
    from .engine import fork_call, run_one  # noqa: PLC0415

    _warm()
    for i in range(n):
        res = fork_call(run_one, (prop, run_seed(verif_seed, prop, i)),
                        timeout=300)
        print("DIGEST", i, res["digest"] + ("!" if res["violations"] else ""),
              flush=True)
    return 0


def main(argv=None) -> int:
    ap = argparse.ArgumentParser()
    ap.add_argument("prop", nargs="?")
    ap.add_argument("tier", nargs="?", default=os.environ.get("VERIF_TIER", "quick"))
    ap.add_argument("--replay")
    ap.add_argument("--digests", nargs=3)
    ap.add_argument("--runs", type=int)
    ap.add_argument("--workers", type=int)
    ap.add_argument("--no-selfcheck", action="store_true")
    a = ap.parse_args(argv)
    seed = int(os.environ.get("VERIF_SEED", "0") or 0)
    try:
        if a.replay:
            return replay(a.replay)
        if a.digests:
            return digests(a.digests[0], int(a.digests[1]), int(a.digests[2]))
        if a.prop == "selftest":
            from .selftest import selftest  # noqa: PLC0415
            return selftest(a.tier, seed)
        if a.prop == "setup":
            _warm()
            print("setup ok")
            return 0
        return batch(a.prop, a.tier, seed, a.runs, a.workers,
                     do_selfcheck=not a.no_selfcheck)
    except SystemExit:
        raise
    except BaseException as e:  # noqa: BLE001
        import traceback  # noqa: PLC0415
        traceback.print_exc()
        print(f"HARNESS-ERROR: {type(e).__name__}: {e}", flush=True)
        return 2


if __name__ == "__main__":
    sys.exit(main())
