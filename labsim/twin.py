"""Constant twin (C10): rebuild a circuit from its construction log with every
Parameter replaced by the constant it holds *now* - plain lightworks calls, no
Parameter objects, no freezing."""
from __future__ import annotations

import lightworks as lw

from .ops import LIB_GATES, gen_unitary


class TwinUnavailable(Exception):
    """The log contains a step the twin cannot rebuild (opaque circuit)."""


def _v(world, x, frozen):
    if isinstance(x, dict) and "p" in x:
        if frozen is not None and x["p"] in frozen:
            return frozen[x["p"]]
        if frozen is not None and str(x["p"]) in frozen:
            return frozen[str(x["p"])]
        return world.pool["p"][x["p"]].get()
    if isinstance(x, dict) and "np" in x:
        return x["v"]
    return x


def _isp(x) -> bool:
    return isinstance(x, dict) and "p" in x


def build(world, log: list, frozen: dict | None = None):
    """May raise any library exception: then the twin cannot be built."""
    c = None
    for e in log:
        k = e[0]
        if k == "circuit":
            c = lw.Circuit(e[1])
        elif k == "unitary":
            c = lw.Unitary(gen_unitary(e[1], e[2], e[3]))
        elif k == "lib_gate":
            c = LIB_GATES[e[1]][0](*e[2])
        elif k == "opaque":
            raise TwinUnavailable
        elif k == "frozen":
            fz = dict(frozen or {})
            fz.update(e[2])
            c = build(world, e[1], fz)
        elif k == "plus":
            c = build(world, e[1], frozen) + build(world, e[2], frozen)
        elif k == "bs":
            kw = {"convention": e[5]}
            if _isp(e[4]):
                # a Parameter-valued loss always creates its loss elements,
                # whatever the value: mirror that with explicit loss() calls
                lv = _v(world, e[4], frozen)
                m1, m2 = _v(world, e[1], frozen), _v(world, e[2], frozen)
                c.bs(m1, m2, _v(world, e[3], frozen), 0, **kw)
                c.loss(m1, lv)
                c.loss(m1 + 1 if m2 is None else m2, lv)
            else:
                c.bs(_v(world, e[1], frozen), _v(world, e[2], frozen),
                     _v(world, e[3], frozen), _v(world, e[4], frozen), **kw)
        elif k == "ps":
            if _isp(e[3]):
                c.ps(_v(world, e[1], frozen), _v(world, e[2], frozen), 0)
                c.loss(_v(world, e[1], frozen), _v(world, e[3], frozen))
            else:
                c.ps(_v(world, e[1], frozen), _v(world, e[2], frozen),
                     _v(world, e[3], frozen))
        elif k == "loss":
            c.loss(_v(world, e[1], frozen), _v(world, e[2], frozen))
        elif k == "barrier":
            c.barrier(e[1])
        elif k == "mode_swaps":
            c.mode_swaps({a: b for a, b in e[1]})
        elif k == "herald":
            c.herald(e[1], _v(world, e[2], frozen), _v(world, e[3], frozen))
        elif k == "add":
            c.add(build(world, e[1], frozen), e[2], e[3])
        elif k == "unpack":
            c.unpack_groups()
        elif k == "compress":
            c.compress_mode_swaps()
        elif k == "remove_nonadj":
            c.remove_non_adjacent_bs()
        else:
            raise TwinUnavailable
    return c


def params_in_log(log: list, acc: set | None = None) -> set:
    acc = set() if acc is None else acc
    for e in log:
        if e[0] in ("add",):
            params_in_log(e[1], acc)
        elif e[0] == "plus":
            params_in_log(e[1], acc)
            params_in_log(e[2], acc)
        elif e[0] == "frozen":
            pass
        else:
            for x in e[1:]:
                if isinstance(x, dict) and "p" in x:
                    acc.add(x["p"])
    return acc
