"""LabSim engine: world, step loop, event log, digests, fork-per-run."""
from __future__ import annotations

import hashlib
import json
import os
import pickle
import random
import select
import signal
import time
import traceback
from collections import Counter

import numpy as np

from . import env  # noqa: F401

KINDS = ["c", "p", "pd", "st", "src", "det", "ps", "sam", "qs", "an",
         "dist", "em", "reck", "tomo", "res"]


class Skip(Exception):
    """An operation refers to an object that does not exist: deterministic no-op."""


class LibRaise(Exception):
    """The library call made by an operation raised `exc`."""

    def __init__(self, exc: BaseException) -> None:
        super().__init__(repr(exc))
        self.exc = exc


class HarnessError(Exception):
    pass


def h_seed(*parts) -> int:
    """Derive a 63-bit integer from the given parts (stable across processes)."""
    s = "/".join(str(p) for p in parts).encode()
    return int.from_bytes(hashlib.sha256(s).digest()[:8], "big") >> 1


def jdump(x) -> str:
    return json.dumps(x, sort_keys=True, separators=(",", ":"), default=_jdefault)


def _jdefault(o):
    if isinstance(o, (np.integer,)):
        return int(o)
    if isinstance(o, (np.floating,)):
        return float(o)
    if isinstance(o, complex):
        return [o.real, o.imag]
    if isinstance(o, np.ndarray):
        return o.tolist()
    if isinstance(o, (set, frozenset)):
        return sorted(o, key=str)
    return repr(o)


# --------------------------------------------------------------------------
# observables


def obs_circuit(c) -> tuple:
    try:
        u = c.U_full
    except Exception as e:  # noqa: BLE001
        u = ("exc", type(e).__name__)
    h = c.heralds
    return (c.n_modes, c.input_modes, dict(h["input"]), dict(h["output"]), u)


def obs_equal(a: tuple, b: tuple) -> bool:
    if a[:4] != b[:4]:
        return False
    ua, ub = a[4], b[4]
    if isinstance(ua, tuple) or isinstance(ub, tuple):
        return isinstance(ua, tuple) and isinstance(ub, tuple) and ua == ub
    return ua.shape == ub.shape and bool(
        np.array_equal(ua, ub, equal_nan=True)
    )


def obs_diff(a: tuple, b: tuple) -> str:
    """Which observable differs (for violation signatures)."""
    names = ["n_modes", "input_modes", "heralds_in", "heralds_out"]
    for i, n in enumerate(names):
        if a[i] != b[i]:
            return n
    return "U_full"


def obs_digest(o: tuple) -> str:
    h = hashlib.sha256()
    h.update(repr((o[0], o[1], sorted(o[2].items()), sorted(o[3].items()))).encode())
    if isinstance(o[4], tuple):
        h.update(repr(o[4]).encode())
    else:
        h.update(np.ascontiguousarray(o[4]).tobytes())
    return h.hexdigest()[:16]


# --------------------------------------------------------------------------
# world


class World:
    def __init__(self, cfg: dict) -> None:
        self.cfg = cfg
        self.pool: dict[str, dict] = {k: {} for k in KINDS}
        self.meta: dict[str, dict] = {k: {} for k in KINDS}
        self.nid: dict[str, int] = {k: 0 for k in KINDS}
        self.stats: Counter = Counter()
        self.extra: dict = {}  # monitor/seam private state
        self.step = 0

    # -- pools
    def new_id(self, kind: str) -> int:
        i = self.nid[kind]
        self.nid[kind] += 1
        return i

    def put(self, kind: str, oid, obj, **meta) -> None:
        self.pool[kind][oid] = obj
        self.meta[kind][oid] = meta
        if isinstance(oid, int) and oid >= self.nid[kind]:
            self.nid[kind] = oid + 1

    def get(self, kind: str, oid):
        try:
            return self.pool[kind][_key(oid)]
        except KeyError:
            raise Skip(f"no {kind}:{oid}") from None

    def has(self, kind: str, oid) -> bool:
        return _key(oid) in self.pool[kind]

    def m(self, kind: str, oid) -> dict:
        return self.meta[kind][_key(oid)]

    def ids(self, kind: str, pred=None) -> list:
        out = list(self.pool[kind].keys())
        if pred is not None:
            out = [i for i in out if pred(i)]
        return out

    # -- library calls
    def call(self, fn, *a, **k):
        """Call into lightworks; any exception is the library's outcome."""
        try:
            return fn(*a, **k)
        except Exception as e:  # noqa: BLE001
            raise LibRaise(e) from None

    def probe(self, name: str, n: int = 1) -> None:
        self.stats["probe:" + name] += n

    # -- snapshots
    def snapshot(self) -> dict:
        snap = {}
        for cid, c in self.pool["c"].items():
            snap[("c", cid)] = obs_circuit(c)
        for sid, s in self.pool["st"].items():
            snap[("st", sid)] = list(s.s)
        return snap


def _key(oid):
    # JSON turns int keys to int already; shared objects use str ids
    return oid


def snap_digest(snap: dict) -> str:
    h = hashlib.sha256()
    for k in sorted(snap, key=str):
        v = snap[k]
        h.update(str(k).encode())
        if k[0] == "c":
            h.update(obs_digest(v).encode())
        else:
            h.update(repr(v).encode())
    return h.hexdigest()[:16]


# --------------------------------------------------------------------------
# one run


def exc_family(e: BaseException) -> str:
    return type(e).__name__


def execute(world: World, op: dict) -> dict:
    """Execute one operation. Returns the outcome dict."""
    from .allops import OPS  # noqa: PLC0415

    spec = OPS.get(op["op"])
    if spec is None:
        return {"status": "skip", "why": "unknown op"}
    try:
        ret = spec.fn(world, op)
        return {"status": "ok", "ret": ret}
    except Skip as e:
        return {"status": "skip", "why": str(e)}
    except LibRaise as e:
        return {"status": "raised", "exc": exc_family(e.exc),
                "msg": str(e.exc)[:120], "_exc": e.exc}


def outcome_class(out: dict) -> str:
    if out["status"] == "raised":
        return "raised:" + out["exc"]
    return out["status"]


def run_one(profile_name: str, seed: int, ops: list | None = None,
            cfg: dict | None = None, want_events: bool = False,
            stop_on_violation: bool = True) -> dict:
    """Run one simulated lab session.

    If `ops` is None the operation list is generated from `seed` by the
    profile's clients; otherwise the given list is executed as is (replay).
    Returns a JSON-able result dict.
    """
    from . import profiles, seams  # noqa: PLC0415

    t0 = time.time()
    profile = profiles.get(profile_name)
    rng = random.Random(seed)
    if cfg is None:
        cfg = profile.swarm(rng)
    world = World(cfg)
    seams.install(world, cfg)
    pristine = None
    try:
        profile.init_world(world)
        if getattr(profile, "pristine_oracle", False):
            from .pristine import PristineServer  # noqa: PLC0415
            pristine = PristineServer()      # forked before any operation runs
            world.extra["pristine"] = pristine
        monitors = [m(world) for m in profile.monitors]
        sched = None if ops is not None else profile.scheduler(world, rng)
        nsteps = cfg["steps"] if ops is None else len(ops)
        done_ops: list = []
        events: list = []
        violations: list = []
        hasher = hashlib.sha256()
        need_snap = any(m.needs_snapshot for m in monitors)
        snap = world.snapshot() if need_snap else {}
        for step in range(nsteps):
            world.step = step
            if ops is None:
                op = sched.next_op()
                if op is None:
                    break
            else:
                op = ops[step]
            world.extra["fresh_mode"] = True
            try:
                for m in monitors:
                    m.pre(op, snap)
            finally:
                world.extra["fresh_mode"] = False
            out = execute(world, op)
            world.stats["op:" + op["op"]] += 1
            world.stats["out:" + out["status"]] += 1
            new_snap = world.snapshot() if need_snap else {}
            vs = []
            if out["status"] != "skip":
                # oracle-side evaluation never triggers injected faults
                world.extra["fresh_mode"] = True
                try:
                    for m in monitors:
                        vs.extend(m.post(op, out, snap, new_snap))
                finally:
                    world.extra["fresh_mode"] = False
            ev = {"i": step, "op": op, "out": outcome_class(out),
                  "ret": out.get("ret"),
                  "obs": snap_digest(new_snap) if need_snap else ""}
            line = jdump(ev)
            hasher.update(line.encode())
            if want_events:
                events.append(ev)
            done_ops.append(op)
            snap = new_snap
            if ops is None:
                sched.observe(op, out)
            if vs:
                for v in vs:
                    v["step"] = step
                violations.extend(vs)
                if stop_on_violation:
                    break
        if not violations:
            for m in monitors:
                violations.extend(m.finish())
        shape = profile.world_shape(world)
        res = {
            "profile": profile_name, "seed": seed, "cfg": cfg,
            "ops": done_ops, "digest": hasher.hexdigest(),
            "violations": violations, "stats": dict(world.stats),
            "steps": len(done_ops), "shape": shape,
            "wall": time.time() - t0,
        }
        if want_events:
            res["events"] = events
        return res
    finally:
        if pristine is not None:
            pristine.close()
        seams.remove(world)


# --------------------------------------------------------------------------
# fork-per-run


class ChildFailed(Exception):
    pass


def fork_call(fn, args: tuple, timeout: float = 120.0):
    """Run fn(*args) in a forked child; return its (picklable) result."""
    r, w = os.pipe()
    pid = os.fork()
    if pid == 0:  # child
        code = 0
        try:
            os.close(r)
            try:
                res = ("ok", fn(*args))
            except BaseException as e:  # noqa: BLE001
                res = ("err", "".join(traceback.format_exception(e))[-4000:])
            data = pickle.dumps(res, protocol=4)
            with os.fdopen(w, "wb") as f:
                f.write(data)
        except BaseException:  # noqa: BLE001
            code = 3
        finally:
            os._exit(code)
    os.close(w)
    chunks = []
    deadline = time.time() + timeout
    try:
        while True:
            left = deadline - time.time()
            if left <= 0:
                os.kill(pid, signal.SIGKILL)
                os.waitpid(pid, 0)
                raise ChildFailed(f"timeout after {timeout}s")
            rl, _, _ = select.select([r], [], [], min(left, 5.0))
            if rl:
                b = os.read(r, 1 << 16)
                if not b:
                    break
                chunks.append(b)
    finally:
        os.close(r)
    os.waitpid(pid, 0)
    if not chunks:
        raise ChildFailed("child died without a result")
    kind, val = pickle.loads(b"".join(chunks))
    if kind == "err":
        raise ChildFailed(val)
    return val


def strip_private(res: dict) -> dict:
    return res
