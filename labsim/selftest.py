"""Determinism and sensitivity self-tests (DESIGN 3.7).

./check selftest quick     determinism: every profile, seeds run twice, 1 vs 16
                           workers, two extra PYTHONHASHSEEDs (fresh interpreters)
./check selftest thorough  + sensitivity: every patch under seeded/ and
                           sensitivity/ applied to a scratch worktree; the
                           property's quick check must report a violation
"""
from __future__ import annotations

import glob
import json
import multiprocessing as mp
import os
import subprocess
import tempfile
import time
from concurrent.futures import ProcessPoolExecutor

from . import env


def _digests(prop, verif_seed, n, workers):
    from .cli import _worker  # noqa: PLC0415
    from . import profiles  # noqa: PLC0415

    ctx = mp.get_context("fork")
    out = {}
    with ProcessPoolExecutor(max_workers=workers, mp_context=ctx) as ex:
        for recs in ex.map(_worker, [(prop, verif_seed, [i],
                                      profiles.get(prop).run_timeout, 0)
                                     for i in range(n)]):
            for r in recs:
                out[r["i"]] = r.get("digest", "ERR")
    return out


def determinism(tier, verif_seed) -> int:
    from . import profiles  # noqa: PLC0415
    from .cli import _digests_fresh, _warm  # noqa: PLC0415

    _warm()
    n = 40 if tier == "quick" else 200
    bad = 0
    for prop in sorted(profiles.PROFILES):
        t0 = time.time()
        a = _digests(prop, verif_seed, n, 16)
        b = _digests(prop, verif_seed, n, 1 if tier != "quick" else 3)
        m1 = sum(1 for i in a if a[i] != b.get(i))
        m2 = 0
        nh = 0
        for hs in ([7] if tier == "quick" else [7, 8]):
            d = _digests_fresh(prop, verif_seed, min(n, 12 if tier == "quick" else 60), hs)
            nh += len(d)
            m2 += sum(1 for i in d if d[i] != a.get(i))
        print(f"determinism {prop}: {n} seeds x 2 worker counts mismatches={m1}; "
              f"{nh} fresh-interpreter/hash-seed digests mismatches={m2} "
              f"({time.time() - t0:.0f}s)", flush=True)
        bad += m1 + m2
    return bad


def sensitivity() -> int:
    base = env.VERIF
    missed = []
    rows = []
    patches = sorted(glob.glob(os.path.join(base, "seeded", "*", "patch.diff")) +
                     glob.glob(os.path.join(base, "sensitivity", "*.diff")))
    for p in patches:
        if p.endswith("patch.diff"):
            meta = json.load(open(os.path.join(os.path.dirname(p), "meta.json")))
            props = meta.get("detected_by") or [meta["property"]]
            name = meta["id"]
        else:
            name = os.path.basename(p)[:-5]
            props = [name.split("-")[0]]
        d = tempfile.mkdtemp(prefix="lw-mut-", dir="/tmp")
        os.rmdir(d)
        subprocess.run(["git", "-C", env.REPO, "worktree", "add", "-q", "--detach", d, "HEAD"], check=True)
        try:
            ap = subprocess.run(["git", "-C", d, "apply", p], capture_output=True, text=True)
            if ap.returncode != 0:
                rows.append((name, props, "patch does not apply"))
                continue
            for prop in props:
                e = dict(os.environ)
                e["LABSIM_REPO"] = d
                r = subprocess.run([os.path.join(base, "check"), prop, "quick", "--no-selfcheck"],
                                   capture_output=True, text=True, env=e, cwd=base)
                ok = r.returncode == 1 and "VIOLATION" in r.stdout
                rows.append((name, prop, "detected" if ok else f"MISSED (exit {r.returncode})"))
                print("sensitivity", *rows[-1], flush=True)
                if not ok:
                    missed.append((name, prop))
        finally:
            subprocess.run(["git", "-C", env.REPO, "worktree", "remove", "--force", d])
    print(f"sensitivity: {len(rows) - len(missed)} detected, {len(missed)} missed")
    return len(missed)


def selftest(tier, verif_seed) -> int:
    bad = determinism(tier, verif_seed)
    if bad:
        print("HARNESS-ERROR: determinism self-test failed")
        return 2
    if tier == "thorough":
        m = sensitivity()
        if m:
            print("HARNESS-ERROR: sensitivity targets missed (see lines above)")
            return 2
    print("selftest ok")
    return 0
