"""Imports every module that registers operations."""
from . import faults, interf, ops, results, tomo  # noqa: F401
from .ops import OPS  # noqa: F401
