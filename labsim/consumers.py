"""Clients that own long-lived Sampler / QuickSampler / Analyzer objects."""
from __future__ import annotations

from .clients import Client, herald_photons
from .ops import PREDICATES


class ConsumerClient(Client):
    kind = "sam"
    maxn = 3

    def __init__(self, *a):
        super().__init__(*a)
        self.queue: list = []

    def queued(self):
        while self.queue:
            o = self.queue.pop(0)
            refs_ok = all(self.w.has(k, o[f]) for f, k in
                          (("c", "c"), ("ref_c", "c")) if f in o)
            if refs_ok:
                o.pop("ref_c", None)
                return o
        return None

    def output_variant(self, sid):
        """Same unitary, same input herald, the output herald on another mode
        (three-argument form): only the read-out differs between the two
        circuits a live consumer is given one after the other."""
        r, w = self.rng, self.w
        n = r.randint(3, 4)
        b, v0, v1 = w.new_id("c"), w.new_id("c"), w.new_id("c")
        m = r.randrange(n)
        oa, ob = r.sample(range(n), 2)
        hn = r.choice([0, 1, 1])
        st = [0] * (n - 1)
        for _ in range(r.randint(1, 2)):
            st[r.randrange(n - 1)] += 1

        def use_n():
            if self.kind == "qs":
                return {"op": "quick_n_outputs", "s": sid, "n": 50,
                        "seed": self.seed()}
            return {"op": r.choice(["sample_n_inputs", "sample_n_outputs"]),
                    "s": sid, "n": 50, "seed": self.seed()}
        self.queue = [
            {"op": "new_unitary", "n": n, "seed": r.randrange(1 << 30),
             "kind": "haar", "out": b},
            {"op": "copy", "c": b, "out": v0},
            {"op": "herald", "c": v0, "n": hn, "i": m, "o": oa},
            {"op": "copy", "c": b, "out": v1},
            {"op": "herald", "c": v1, "n": hn, "i": m, "o": ob},
            {"op": "cons_set", "kind": self.kind, "s": sid, "attr": "circuit",
             "ref": v0, "ref_c": v0},
            {"op": "cons_set", "kind": self.kind, "s": sid,
             "attr": "input_state", "value": st},
            use_n(),
            {"op": "cons_set", "kind": self.kind, "s": sid, "attr": "circuit",
             "ref": v1, "ref_c": v1},
            use_n(), self.use_op(sid),
        ]
        w.stats["intent:herald_variant_output_only"] += 1
        return self.queued()

    def variant_intent(self, sid):
        """Two circuits with the same unitary that differ only in their
        heralds (photon number or mode), swapped under a live consumer."""
        r, w = self.rng, self.w
        if len(self.own_circuits()) + 2 > self.cfg["max_circuits"] + 2:
            return None
        if r.random() < 0.3:
            return self.output_variant(sid)
        bases = self.any_circuits(
            lambda cid, c: 2 <= c.n_modes <= self.cfg["emu_max_modes"] - 0
            and not c.heralds["input"] and c.input_modes >= 2)
        if not bases:
            return None
        b = self.pick(bases)
        c = w.pool["c"][b]
        n = c.n_modes
        m = r.randrange(n)
        m2 = m if r.random() < 0.6 else r.randrange(n)
        na, nb = r.choice([(0, 1), (1, 0), (0, 0), (1, 2), (0, 2)])
        if m2 != m and r.random() < 0.5:
            nb = na
        v0, v1 = w.new_id("c"), w.new_id("c")
        st = self.state_for_n(n - 1)
        self.queue = [
            {"op": "copy", "c": b, "out": v0},
            {"op": "herald", "c": v0, "n": na, "i": m},
            {"op": "copy", "c": b, "out": v1},
            {"op": "herald", "c": v1, "n": nb, "i": m2},
            {"op": "cons_set", "kind": self.kind, "s": sid, "attr": "circuit",
             "ref": v0, "ref_c": v0},
            {"op": "cons_set", "kind": self.kind, "s": sid,
             "attr": "input_state", "value": st},
            self.use_op(sid),
            {"op": "cons_set", "kind": self.kind, "s": sid, "attr": "circuit",
             "ref": v1, "ref_c": v1},
            self.use_op(sid),
        ]
        self.w.stats["intent:herald_variant"] += 1
        return self.queued()

    def seed(self):
        v = self.seed_value()
        if self.rng.random() < 0.06:
            # an integer seed that is not a builtin int
            return {"np": self.rng.choice(["int64", "int32"]), "v": v % (2 ** 31 - 1)}
        return v

    def bad_ps_add(self):
        """A PostSelection.add() the API refuses: a second rule on a mode that
        has one (multi_rules off), negative or fractional entries."""
        r, w = self.rng, self.w
        cands = [p for p in w.pool["ps"] if w.meta["ps"][p]["pkind"] == "rules"
                 and not w.pool["ps"][p].multi_rules and w.pool["ps"][p].modes]
        k = r.random()
        if cands and k < 0.7:
            ref = self.pick(cands)
            used = w.pool["ps"][ref].modes
            m = r.choice(used)
            modes = [m] if r.random() < 0.5 else sorted({m, m + 1})
            return {"op": "ps_add", "ps": ref, "modes": modes,
                    "n": [r.choice([0, 1, 2])], "reject": True}
        anyr = [p for p in w.pool["ps"] if w.meta["ps"][p]["pkind"] == "rules"]
        if not anyr:
            return None
        return {"op": "ps_add", "ps": self.pick(anyr),
                "modes": [r.choice([-1, 0.5])], "n": [1], "reject": True}

    def sample_size(self):
        r = self.rng
        if self.cfg.get("big_n"):
            return r.choice([2000, 20000, 20000])
        return r.choice([20, 50, 200])

    def perturbation(self):
        """F-prng between the two halves of a same-seed pair."""
        r, w = self.rng, self.w
        out = []
        for _ in range(r.randint(1, 3)):
            k = r.choice(["draw", "seed", "npseed", "npdraw", "other_sample"])
            if k == "other_sample":
                ids = list(w.pool["sam"])
                if ids:
                    out.append(["other_sample", self.pick(ids)])
            else:
                out.append([k, r.randrange(1, 1000)])
        return out

    def source_sweep(self, sid):
        """One source property at a time changed in place, through the sampler,
        on a two-photon input (where every source property matters), with a read
        after each single change: each property must be part of what the cached
        distribution depends on."""
        r, w = self.rng, self.w
        n = r.randint(2, 3)
        cid = w.new_id("c")
        st = [0] * n
        st[0] += 1
        st[r.randrange(n)] += 1
        q = [{"op": "new_unitary", "n": n, "seed": r.randrange(1 << 30),
              "kind": "haar", "out": cid},
             {"op": "cons_set", "kind": "sam", "s": sid, "attr": "circuit",
              "ref": cid, "ref_c": cid},
             {"op": "cons_set", "kind": "sam", "s": sid, "attr": "input_state",
              "value": st},
             {"op": "read_dist", "kind": "sam", "s": sid}]
        props = [("indistinguishability", [0.9, 0.5, 0.0]),
                 ("purity", [0.95, 0.8]), ("brightness", [0.9, 0.6]),
                 ("indistinguishability", [1, 0.7])]
        r.shuffle(props)
        for attr, vals in props[:3]:
            q.append({"op": "cons_component_set", "kind": "sam", "s": sid,
                      "comp": "source", "attr": attr, "value": r.choice(vals)})
            q.append(r.choice([
                {"op": "read_dist", "kind": "sam", "s": sid},
                {"op": "sample_n_inputs", "s": sid, "n": 50,
                 "seed": self.seed()}]))
        self.queue = q
        w.stats["intent:source_sweep"] += 1
        return self.queued()

    def call_order_session(self, sid):
        """Every access path of a consumer before and after a reconfiguration,
        in a scrambled order: a cache refreshed through one path must not leave
        another path stale."""
        r, w = self.rng, self.w
        s_ = w.pool[self.kind][sid]
        try:
            n = s_.circuit.input_modes
        except Exception:  # noqa: BLE001
            return None
        if n < 1:
            return None
        heralded = bool(s_.circuit.heralds["output"])

        def paths():
            one = {"op": "sample", "kind": self.kind, "s": sid,
                   "stream": r.randrange(1 << 30)}
            if self.kind == "sam" and heralded:
                # Sampler.sample() under heralds is known finding K4: a hit
                # ends the run, so it is kept rare
                one = {"op": "sample_n_inputs", "s": sid, "n": 20,
                       "seed": self.seed()}
            many = ({"op": "quick_n_outputs", "s": sid, "n": 50,
                     "seed": self.seed()} if self.kind == "qs" else
                    {"op": r.choice(["sample_n_inputs", "sample_n_outputs"]),
                     "s": sid, "n": 50, "seed": self.seed()})
            rd = {"op": "read_dist", "kind": self.kind, "s": sid}
            ps = [one, rd, many, dict(one, stream=r.randrange(1 << 30))]
            r.shuffle(ps)
            return ps + [dict(one, stream=r.randrange(1 << 30))]
        st = [0] * n
        for _ in range(r.randint(1, 2)):
            st[r.randrange(n)] += 1
        q = paths()
        if self.kind == "qs" and r.random() < 0.5:
            q.append({"op": "cons_set", "kind": "qs", "s": sid,
                      "attr": "photon_counting",
                      "value": not s_.photon_counting})
        else:
            q.append({"op": "cons_set", "kind": self.kind, "s": sid,
                      "attr": "input_state", "value": st})
        q += paths()
        self.queue = q
        w.stats["intent:call_order_session"] += 1
        return self.queued()

    def detector_toggle(self, sid):
        """A perfect detector whose counting mode is switched in place between
        uses, on outputs that bunch photons."""
        r, w = self.rng, self.w
        n = r.randint(2, 3)
        cid, did = w.new_id("c"), w.new_id("det")
        st = [0] * n
        st[0] += 1
        st[r.randrange(n)] += 1
        first = r.random() < 0.5
        big = self.cfg.get("big_n")

        def use():
            k = r.random()
            if k < 0.25:
                return {"op": "sample_n_outputs", "s": sid,
                        "n": 2000 if big else 50, "seed": self.seed()}
            if k < 0.5:
                return {"op": "sample_n_inputs", "s": sid,
                        "n": 2000 if big else 50, "seed": self.seed()}
            if k < 0.75 and big:
                return {"op": "sample_many", "kind": "sam", "s": sid,
                        "n": 2000, "stream": r.randrange(1 << 30)}
            return {"op": "sample", "kind": "sam", "s": sid,
                    "stream": r.randrange(1 << 30)}
        self.queue = [
            {"op": "new_unitary", "n": n, "seed": r.randrange(1 << 30),
             "kind": "haar", "out": cid},
            {"op": "new_detector", "out": did, "eff": 1, "p_dark": 0, "pnr": first},
            {"op": "cons_set", "kind": "sam", "s": sid, "attr": "circuit",
             "ref": cid, "ref_c": cid},
            {"op": "cons_set", "kind": "sam", "s": sid, "attr": "input_state",
             "value": st},
            {"op": "cons_set", "kind": "sam", "s": sid, "attr": "detector",
             "ref": did},
            use(),
            {"op": "det_set", "det": did, "attr": "photon_counting",
             "value": not first},
            use(),
            {"op": "det_set", "det": did, "attr": "photon_counting",
             "value": first},
            use(),
        ]
        w.stats["intent:detector_toggle"] += 1
        return self.queued()

    def postsel_session(self, sid):
        """A rule set that is edited in place - accepted and refused additions -
        between the sampling calls that use it."""
        r, w = self.rng, self.w
        s = w.pool[self.kind][sid]
        n = s.circuit.input_modes
        if n < 2 or len(w.pool["ps"]) >= 8:
            return None
        ref = w.new_id("ps")
        m0 = r.randrange(n)
        others = [m for m in range(n) if m != m0]
        big = self.cfg.get("big_n")
        N = 20000 if big else 50

        def use():
            if self.kind == "sam":
                return {"op": r.choice(["sample_n_inputs", "sample_n_inputs",
                                        "sample_n_outputs"]),
                        "s": sid, "n": N, "seed": self.seed(), "ps": ref}
            return {"op": "quick_n_outputs", "s": sid, "n": N, "seed": self.seed()}
        q = [{"op": "new_postsel", "kind": "rules",
              "rules": [[[m0], sorted(set(r.sample([0, 1, 2], 2)))]], "out": ref}]
        multi = r.random() < 0.4
        if multi:
            q[0]["multi"] = True
            q[0]["rules"] = [[[m0], [0, 1, 2]]]
        aslist = r.random() < 0.5
        if aslist:
            # the rules are given as lists the caller keeps - and changes later
            q[0]["as_list"] = True
        if self.kind == "qs":
            q.append({"op": "cons_set", "kind": "qs", "s": sid,
                      "attr": "post_select", "ref": ref})
        q.append(use())
        if multi:
            # several rules per mode are allowed: tighten the rule on a mode
            # that already carries one, twice, between uses
            for ns in r.sample([[0, 1], [1, 2], [0], [1], [0, 2]], 2):
                q.append({"op": "ps_add", "ps": ref, "modes": [m0], "n": ns,
                          "as_list": aslist})
                q.append(use())
            if aslist:
                q.append({"op": "caller_mutate", "what": "pslist", "ps": ref,
                          "k": r.randrange(3), "which": "n",
                          "value": r.choice([0, 1, 2, 3])})
                q.append(use())
            self.queue = q
            w.stats["intent:postsel_session_multi"] += 1
            return self.queued()
        if aslist:
            q.append({"op": "caller_mutate", "what": "pslist", "ps": ref, "k": 0,
                      "which": r.choice(["n", "n", "m"]),
                      "value": r.choice([0, 1, 2, 3]) })
            q.append(use())
        # a refused addition: the mode already has a rule
        q.append({"op": "ps_add", "ps": ref,
                  "modes": [m0] if r.random() < 0.5 else sorted([m0, r.choice(others)]),
                  "n": [r.choice([0, 1, 2])], "reject": True})
        q.append(use())
        # an accepted addition on another mode
        q.append({"op": "ps_add", "ps": ref, "modes": [r.choice(others)],
                  "n": sorted(set(r.sample([0, 1, 2], 2)))})
        q.append(use())
        self.queue = q
        w.stats["intent:postsel_session"] += 1
        w.stats["fault:reject_issued"] += 1
        return self.queued()

    def predicate_session(self, sid):
        """Two different predicate functions that come from the same factory
        (same code object, different closure), swapped under a live consumer."""
        r, w = self.rng, self.w
        if len(w.pool["ps"]) >= 8:
            return None
        a, b = w.new_id("ps"), w.new_id("ps")
        na, nb = r.sample(["max1", "even", "m0_lt2", "some", "m0_zero", "all"], 2)
        attr = "post_select" if self.kind == "qs" else None
        if attr is None:
            return None
        self.queue = [
            {"op": "new_postsel", "kind": "pred", "pred": na, "out": a},
            {"op": "new_postsel", "kind": "pred", "pred": nb, "out": b},
            {"op": "cons_set", "kind": "qs", "s": sid, "attr": attr, "ref": a},
            self.use_op(sid),
            {"op": "cons_set", "kind": "qs", "s": sid, "attr": attr, "ref": b},
            self.use_op(sid),
            {"op": "cons_set", "kind": "qs", "s": sid, "attr": attr, "value": None},
            self.use_op(sid),
        ]
        w.stats["intent:predicate_session"] += 1
        return self.queued()

    def herald_session(self, sid):
        """A photon-carrying herald whose output mode can receive more than one
        photon, observed through threshold and counting detectors with both
        N-sample methods."""
        r, w = self.rng, self.w
        n = r.choice([3, 4, 4])
        cid, did = w.new_id("c"), w.new_id("det")
        hi, ho = r.randrange(n), r.randrange(n)
        st = [0] * (n - 1)
        for _ in range(2):
            st[r.randrange(n - 1)] += 1
        useed, hn = r.randrange(1 << 30), r.choice([1, 1, 0, 2])
        q = [{"op": "new_unitary", "n": n, "seed": useed,
              "kind": "haar", "out": cid},
             {"op": "herald", "c": cid, "n": hn, "i": hi, "o": ho},
             {"op": "new_detector", "out": did,
              "eff": r.choice([1, 1, 1, 0.7, 0.4]),
              "p_dark": r.choice([0, 0, 0, 0.05]),
              "pnr": r.random() < 0.3},
             {"op": "cons_set", "kind": "sam", "s": sid, "attr": "circuit",
              "ref": cid, "ref_c": cid},
             {"op": "cons_set", "kind": "sam", "s": sid, "attr": "input_state",
              "value": st},
             {"op": "cons_set", "kind": "sam", "s": sid, "attr": "detector",
              "ref": did},
             {"op": "sample_n_outputs", "s": sid, "n": 20000,
              "seed": self.seed(), "md": r.choice([0, 0, 1, 2])},
             {"op": "sample_n_inputs", "s": sid, "n": 20000,
              "seed": self.seed(), "md": r.choice([0, 0, 1, 2])},
             # the same boundary seed twice, another client drawing in between
             {"op": "sample_n_inputs", "s": sid, "n": 200,
              "seed": r.choice([0, 0, 1, 2**32 - 1]),
              "twice": [["draw", r.randint(1, 5)]]}]
        if r.random() < 0.5:
            q.insert(2, {"op": "bs", "c": cid, "m1": hi,
                         "m2": (hi + 1) % n, "r": round(r.uniform(0.2, 0.8), 3),
                         "loss": r.choice([0, 0, 0.2])})
        if r.random() < 0.5:
            # the same transformation with the herald read out on another
            # mode, given to the same sampler afterwards
            c2 = w.new_id("c")
            ho2 = r.choice([m for m in range(n) if m != ho])
            q += [{"op": "new_unitary", "n": n, "seed": useed, "kind": "haar",
                   "out": c2},
                  {"op": "herald", "c": c2, "n": hn, "i": hi, "o": ho2},
                  {"op": "cons_set", "kind": "sam", "s": sid, "attr": "circuit",
                   "ref": c2, "ref_c": c2},
                  {"op": r.choice(["sample_n_inputs", "sample_n_outputs"]),
                   "s": sid, "n": 20000, "seed": self.seed()}]
        elif n == 4 and r.random() < 0.8:
            # a second herald, declared after the first on a lower / higher
            # mode: declaration order and mode order disagree half of the time
            i2 = r.choice([m for m in range(n) if m != hi])
            o2 = r.choice([m for m in range(n) if m != ho])
            q.insert(2, {"op": "herald", "c": cid, "n": r.choice([0, 1]),
                         "i": i2, "o": o2})
            for o in q:
                if o["op"] == "cons_set" and o.get("attr") == "input_state":
                    o["value"] = st[:n - 2] if sum(st[:n - 2]) else [1, 0]
        self.queue = q
        w.stats["intent:herald_session"] += 1
        return self.queued()

    def mzi_intent(self, sid):
        """An interferometer whose *phase* is a Parameter, held by a live
        consumer while the phase is changed: |U| stays the same entry-wise at
        the first beam splitter, the output statistics do not."""
        r, w = self.rng, self.w
        n = r.randint(2, 3)
        cid, pid = w.new_id("c"), w.new_id("p")
        st = [0] * n
        st[r.randrange(n)] += 1
        if r.random() < 0.5:
            st[r.randrange(n)] += 1
        build = [
            {"op": "new_param", "value": round(r.uniform(0, 3), 3), "out": pid,
             "role": "phi"},
            {"op": "new_circuit", "n": n, "out": cid},
            {"op": "bs", "c": cid, "m1": 0, "m2": 1, "r": 0.5},
            {"op": "ps", "c": cid, "m": r.randint(0, 1), "phi": {"p": pid}},
            {"op": "bs", "c": cid, "m1": 0, "m2": 1,
             "r": r.choice([0.5, 0.3])}]
        if r.random() < 0.5:
            # the interferometer sits inside a group of the held circuit
            par = w.new_id("c")
            build += [{"op": "new_circuit", "n": n, "out": par},
                      {"op": "add", "parent": par, "sub": cid, "mode": 0,
                       "group": True}]
            cid = par
        self.queue = build + [
            {"op": "cons_set", "kind": self.kind, "s": sid, "attr": "circuit",
             "ref": cid, "ref_c": cid},
            {"op": "cons_set", "kind": self.kind, "s": sid,
             "attr": "input_state", "value": st},
            self.use_op(sid),
            {"op": "param_set", "p": pid, "value": round(r.uniform(0, 6), 3)},
            self.use_op(sid),
            {"op": "param_set", "p": pid, "value": round(r.uniform(0, 6), 3)},
            self.use_op(sid),
        ]
        if r.random() < 0.5:
            # a fine sweep: steps far below any plausible tolerance shortcut
            v = round(r.uniform(0.5, 2.5), 3)
            self.queue += [
                {"op": "param_set", "p": pid, "value": v},
                self.use_op(sid),
                {"op": "param_set", "p": pid, "value": v + r.choice([1e-6, 3e-7, 1e-8])},
                self.use_op(sid),
            ]
        w.stats["intent:mzi_phase"] += 1
        return self.queued()

    def state_for_n(self, n):
        s = [0] * n
        for _ in range(self.rng.randint(0, 2)):
            s[self.rng.randrange(n)] += 1
        return s

    def use_op(self, sid):
        return {"op": "read_dist", "kind": self.kind, "s": sid}

    def small_circuits(self, input_modes=None):
        cfg, w = self.cfg, self.w

        def ok(cid, c):
            if w.meta["c"][cid].get("opaque") and c.n_modes > cfg["emu_max_modes"]:
                return False
            if c.n_modes > cfg["emu_max_modes"] or c.input_modes < 1:
                return False
            if herald_photons(c) > 2:
                return False
            if input_modes is not None and c.input_modes != input_modes:
                return False
            try:
                if c.U_full.shape[0] > cfg["emu_max_modes"] + 4:
                    return False
            except Exception:  # noqa: BLE001
                pass
            return True
        return self.any_circuits(ok)

    def new_state(self, c, maxp=None):
        maxp = self.cfg.get("max_photons", 2) if maxp is None else maxp
        budget = max(0, 3 - herald_photons(c))
        return self.state_for(c, min(maxp, budget))

    def related(self, cid, cands):
        """Prefer circuits that are copies/variants of the one currently held."""
        w = self.w
        fam = self.family(cid)
        rel = [c for c in cands if c != cid and self.family(c) == fam]
        return rel

    def family(self, cid):
        m = self.w.meta["c"]
        seen = set()
        while cid in m and m[cid].get("copied_from") is not None and cid not in seen:
            seen.add(cid)
            cid = m[cid]["copied_from"]
        return cid

    def pick_postsel(self, allow_none=True):
        r, w = self.rng, self.w
        ids = list(w.pool["ps"])
        if not ids or (allow_none and r.random() < 0.25):
            return None
        rules = [p for p in ids if w.meta["ps"][p]["pkind"] == "rules"]
        if rules and r.random() < 0.5:
            return self.pick(rules)
        return self.pick(ids)

    def new_postsel(self, n_modes):
        r, w = self.rng, self.w
        out = w.new_id("ps")
        if r.random() < 0.55:
            rules = []
            for _ in range(r.randint(0, 2)):
                m = r.randrange(max(1, n_modes))
                if any(m in x[0] for x in rules):
                    continue
                rules.append([[m], sorted(set(r.sample([0, 1, 2], r.randint(1, 2))))])
            o = {"op": "new_postsel", "kind": "rules", "rules": rules,
                 "out": out}
            if r.random() < 0.35:
                o["multi"] = True
            return o
        return {"op": "new_postsel", "kind": "pred",
                "pred": r.choice(sorted(PREDICATES)), "out": out}

    def edit_attached(self, cid):
        """In-place edit of the circuit a consumer holds (must be noticed)."""
        from .clients import Builder  # noqa: PLC0415
        w = self.w
        if isinstance(cid, str) or not w.has("c", cid):
            return None
        if w.meta["c"][cid].get("opaque"):
            return None
        b = Builder(w, self.rng, self.cfg)
        o = b.primitive(cid)
        if o is not None and o["op"] == "herald":
            # changing the input size under a consumer is a legal edit too, but
            # keep it rare: it mostly produces unbuildable configurations
            if self.rng.random() < 0.7:
                return None
        return o


class SamplerUser(ConsumerClient):
    name = "sampler_user"
    kind = "sam"

    def use_op(self, sid):
        r = self.rng
        k = r.random()
        if k < 0.5:
            return {"op": "read_dist", "kind": "sam", "s": sid}
        if k < 0.75 or self.cfg.get("big_n"):
            return {"op": "sample_n_inputs", "s": sid, "n": 50,
                    "seed": r.randrange(1 << 30)}
        return {"op": "sample", "kind": "sam", "s": sid,
                "stream": r.randrange(1 << 30)}

    def propose(self):
        r, w, cfg = self.rng, self.w, self.cfg
        mine = list(w.pool["sam"])
        if len(mine) < 1 or (len(mine) < self.maxn and r.random() < 0.1):
            return self.create()
        q = self.queued()
        if q is not None:
            return q
        sid = self.pick(mine)
        s = w.pool["sam"][sid]
        meta = w.meta["sam"][sid]
        if r.random() < 0.04:
            return self.variant_intent(sid)
        if r.random() < 0.03 and len(w.pool["p"]) < 8:
            return self.mzi_intent(sid)
        if cfg.get("big_n") and r.random() < 0.05:
            return self.herald_session(sid)
        if r.random() < 0.03:
            return self.detector_toggle(sid)
        if r.random() < 0.03:
            return self.postsel_session(sid)
        if r.random() < 0.03:
            return self.call_order_session(sid)
        if cfg.get("source_sweep") and r.random() < 0.03:
            return self.source_sweep(sid)
        k = r.choice(["read", "read", "sample", "sample_n", "sample_n",
                      "sample_o", "circuit", "circuit", "state", "source",
                      "src_edit", "src_edit", "detector", "det_edit", "backend",
                      "edit_circuit", "edit_circuit", "new_src", "new_det",
                      "new_ps", "pred_fault", "reject", "ps_add"])
        if r.random() < 0.04:
            # edit the consumer's own source / detector in place, through it
            comp = r.choice(["source", "detector"])
            if comp == "source":
                attr = r.choice(["brightness", "indistinguishability"])
                v = r.choice([1, 0.9, 0.6])
            else:
                attr = r.choice(["efficiency", "photon_counting"])
                v = r.choice([1, 0.9]) if attr == "efficiency" else r.random() < 0.5
            return {"op": "cons_component_set", "kind": "sam", "s": sid,
                    "comp": comp, "attr": attr, "value": v}
        if k == "ps_add":
            rules = [p for p in w.pool["ps"] if w.meta["ps"][p]["pkind"] == "rules"]
            if not rules:
                return self.new_postsel(s.circuit.input_modes) if len(w.pool["ps"]) < 4 else None
            if cfg.get("faults") and r.random() < 0.35:
                o = self.bad_ps_add()
                if o is not None:
                    w.stats["fault:reject_issued"] += 1
                    return o
            ref = self.pick(rules)
            ps = w.pool["ps"][ref]
            n = s.circuit.input_modes
            free = [m for m in range(n) if m not in ps.modes]
            if not free:
                return None
            return {"op": "ps_add", "ps": ref, "modes": [r.choice(free)],
                    "n": sorted(set(r.sample([0, 1, 2], r.randint(1, 2))))}
        cid = meta.get("circuit")
        c = w.pool["c"].get(cid)
        if k == "read":
            return {"op": "read_dist", "kind": "sam", "s": sid}
        if k == "sample":
            if cfg.get("big_n") and s.circuit.heralds["input"] and r.random() < 0.9:
                # Sampler.sample() on heralded circuits is known finding K4:
                # keep it rare, a hit ends the run
                k = "read"
                return {"op": "read_dist", "kind": "sam", "s": sid}
            o = {"op": "sample", "kind": "sam", "s": sid,
                 "stream": r.randrange(1 << 30)}
            if cfg.get("big_n") and r.random() < 0.5:
                o = {"op": "sample_many", "kind": "sam", "s": sid,
                     "n": r.choice([2000, 5000]), "stream": r.randrange(1 << 30)}
            elif cfg.get("big_n") and r.random() < 0.3:
                o["script"] = [r.choice([0.0, 1 - 2.0 ** -53, 0.5])]
            return o
        if k in ("sample_n", "sample_o"):
            o = {"op": "sample_n_inputs" if k == "sample_n" else "sample_n_outputs",
                 "s": sid, "n": self.sample_size(),
                 "seed": self.seed()}
            ps = self.pick_postsel()
            if ps is not None:
                o["ps"] = ps
            if r.random() < 0.4:
                o["md"] = r.randint(0, 2)
            if cfg.get("big_n") and r.random() < 0.5:
                o["twice"] = self.perturbation()
            return o
        if k == "circuit":
            cands = self.small_circuits(s.circuit.input_modes if r.random() < 0.85 else None)
            rel = self.related(cid, cands)
            pick = self.pick(rel) if rel and r.random() < 0.6 else self.pick(cands)
            if pick is None:
                return None
            return {"op": "cons_set", "kind": "sam", "s": sid,
                    "attr": "circuit", "ref": pick}
        if k == "state":
            if c is None:
                return None
            return {"op": "cons_set", "kind": "sam", "s": sid,
                    "attr": "input_state", "value": self.new_state(s.circuit)}
        if k == "source":
            ids = list(w.pool["src"])
            if not ids:
                return self.new_source()
            return {"op": "cons_set", "kind": "sam", "s": sid,
                    "attr": "source", "ref": self.pick(ids)}
        if k == "detector":
            ids = list(w.pool["det"])
            if not ids:
                return self.new_detector()
            return {"op": "cons_set", "kind": "sam", "s": sid,
                    "attr": "detector", "ref": self.pick(ids)}
        if k == "backend":
            return {"op": "cons_set", "kind": "sam", "s": sid,
                    "attr": "backend", "value": r.choice(["permanent", "slos"])}
        if k == "src_edit":
            ids = list(w.pool["src"])
            if not ids:
                return self.new_source()
            attr = r.choice(["brightness", "purity", "indistinguishability",
                             "probability_threshold"])
            v = {"brightness": r.choice([1, 0.9, 0.7, 0.5]),
                 "purity": r.choice([1, 0.98, 0.9]),
                 "indistinguishability": r.choice([1, 0.95, 0.5, 0]),
                 "probability_threshold": r.choice([0, 1e-6, 1e-3])}[attr]
            return {"op": "src_set", "src": self.pick(ids), "attr": attr,
                    "value": v}
        if k == "det_edit":
            ids = list(w.pool["det"])
            if not ids:
                return self.new_detector()
            attr = r.choice(["efficiency", "p_dark", "photon_counting"])
            v = {"efficiency": r.choice([1, 0.9, 0.6, 0]),
                 "p_dark": r.choice([0, 0, 0.05, 0.3]),
                 "photon_counting": r.random() < 0.5}[attr]
            return {"op": "det_set", "det": self.pick(ids), "attr": attr,
                    "value": v}
        if k == "edit_circuit":
            return self.edit_attached(cid)
        if k == "new_src":
            return self.new_source() if len(w.pool["src"]) < 3 else None
        if k == "new_det":
            return self.new_detector() if len(w.pool["det"]) < 3 else None
        if k == "new_ps":
            if len(w.pool["ps"]) >= 4 or c is None:
                return None
            return self.new_postsel(s.circuit.input_modes)
        if k == "pred_fault":
            if not cfg.get("faults"):
                return None
            preds = [p for p in w.pool["ps"] if w.meta["ps"][p]["pkind"] == "pred"]
            if not preds:
                return None
            return {"op": "pred_fault", "ps": self.pick(preds),
                    "k": r.randint(1, 6)}
        # F-reject on consumer setters
        if not cfg.get("faults"):
            return None
        w.stats["fault:reject_issued"] += 1
        kk = r.choice(["circuit", "state_len", "state_neg", "state_type",
                       "source", "detector", "backend", "clifford", "ps_add",
                       "ps_add"])
        if kk == "ps_add":
            o = self.bad_ps_add()
            if o is not None:
                return o
            kk = "backend"
        o = {"op": "cons_set", "kind": "sam", "s": sid, "reject": True}
        if kk == "circuit":
            o.update(attr="circuit", value=3)
        elif kk == "state_len":
            o.update(attr="input_state",
                     value=[1] * (s.circuit.input_modes + 1))
        elif kk == "state_neg":
            o.update(attr="input_state",
                     value=[-1] + [0] * (s.circuit.input_modes - 1))
        elif kk == "state_type":
            o.update(attr="input_state", value=3)
        elif kk == "source":
            o.update(attr="source", value=3)
        elif kk == "detector":
            o.update(attr="detector", value=3)
        elif kk == "backend":
            o.update(attr="backend", value="nope")
        else:
            o.update(attr="backend", value="clifford")
        return o

    def create(self):
        r, w = self.rng, self.w
        cands = self.small_circuits()
        if not cands:
            return None
        cid = self.pick(cands)
        c = w.pool["c"][cid]
        o = {"op": "new_sampler", "c": cid, "state": self.new_state(c),
             "out": w.new_id("sam")}
        if w.pool["src"] and r.random() < 0.5:
            o["src"] = self.pick(list(w.pool["src"]))
        if w.pool["det"] and r.random() < 0.5:
            o["det"] = self.pick(list(w.pool["det"]))
        if r.random() < 0.4:
            o["backend"] = r.choice(["permanent", "slos"])
        return o

    def new_source(self):
        r = self.rng
        return {"op": "new_source", "out": self.w.new_id("src"),
                "brightness": r.choice([1, 1, 0.8, 0.5]),
                "purity": r.choice([1, 1, 0.95]),
                "indist": r.choice([1, 1, 0.9, 0.4]),
                "thr": r.choice([0, 0, 1e-6])}

    def new_detector(self):
        r = self.rng
        return {"op": "new_detector", "out": self.w.new_id("det"),
                "eff": r.choice([1, 1, 0.9, 0.6, 0]),
                "p_dark": r.choice([0, 0, 0.05, 0.3]),
                "pnr": r.random() < 0.6}


class QuickUser(ConsumerClient):
    name = "quick_user"
    kind = "qs"

    def use_op(self, sid):
        r = self.rng
        k = r.random()
        if k < 0.5:
            return {"op": "read_dist", "kind": "qs", "s": sid}
        if k < 0.75:
            return {"op": "quick_n_outputs", "s": sid, "n": 50,
                    "seed": r.randrange(1 << 30)}
        return {"op": "sample", "kind": "qs", "s": sid,
                "stream": r.randrange(1 << 30)}

    def propose(self):
        r, w, cfg = self.rng, self.w, self.cfg
        mine = list(w.pool["qs"])
        if len(mine) < 1 or (len(mine) < self.maxn and r.random() < 0.1):
            return self.create()
        q = self.queued()
        if q is not None:
            return q
        sid = self.pick(mine)
        s = w.pool["qs"][sid]
        meta = w.meta["qs"][sid]
        cid = meta.get("circuit")
        if r.random() < 0.04:
            return self.variant_intent(sid)
        if r.random() < 0.03 and len(w.pool["p"]) < 8:
            return self.mzi_intent(sid)
        if r.random() < 0.03:
            return self.postsel_session(sid)
        if r.random() < 0.03:
            return self.predicate_session(sid)
        if r.random() < 0.03:
            return self.call_order_session(sid)
        k = r.choice(["read", "read", "sample", "sample", "sample_o",
                      "sample_o", "circuit", "circuit", "state", "pnr",
                      "ps", "ps_add", "ps_add", "edit_circuit", "edit_circuit",
                      "new_ps", "pred_fault", "reject"])
        if k == "read":
            return {"op": "read_dist", "kind": "qs", "s": sid}
        if k == "sample":
            o = {"op": "sample", "kind": "qs", "s": sid,
                 "stream": r.randrange(1 << 30)}
            if cfg.get("big_n") and r.random() < 0.5:
                o = {"op": "sample_many", "kind": "qs", "s": sid,
                     "n": r.choice([2000, 5000]), "stream": r.randrange(1 << 30)}
            elif cfg.get("big_n") and r.random() < 0.3:
                o["script"] = [r.choice([0.0, 1 - 2.0 ** -53, 0.5])]
            return o
        if k == "sample_o":
            o = {"op": "quick_n_outputs", "s": sid,
                 "n": self.sample_size(), "seed": self.seed()}
            if cfg.get("big_n") and r.random() < 0.5:
                o["twice"] = self.perturbation()
            return o
        if k == "circuit":
            cands = self.small_circuits(s.circuit.input_modes if r.random() < 0.85 else None)
            rel = self.related(cid, cands)
            pick = self.pick(rel) if rel and r.random() < 0.6 else self.pick(cands)
            if pick is None:
                return None
            return {"op": "cons_set", "kind": "qs", "s": sid,
                    "attr": "circuit", "ref": pick}
        if k == "state":
            return {"op": "cons_set", "kind": "qs", "s": sid,
                    "attr": "input_state", "value": self.new_state(s.circuit)}
        if k == "pnr":
            return {"op": "cons_set", "kind": "qs", "s": sid,
                    "attr": "photon_counting", "value": r.random() < 0.5}
        if k == "ps":
            ps = self.pick_postsel()
            o = {"op": "cons_set", "kind": "qs", "s": sid,
                 "attr": "post_select"}
            if ps is None:
                o["value"] = None
            else:
                o["ref"] = ps
            return o
        if k == "ps_add":
            # in-place edit of the attached PostSelection
            ref = meta.get("ps")
            rules = [p for p in w.pool["ps"] if w.meta["ps"][p]["pkind"] == "rules"]
            if ref not in rules:
                ref = self.pick(rules)
            if ref is None:
                return self.new_postsel(s.circuit.input_modes)
            ps = w.pool["ps"][ref]
            n = s.circuit.input_modes
            free = [m for m in range(n) if m not in ps.modes]
            if ps.multi_rules and n:
                # several rules per mode are allowed: mostly pile onto a mode
                # that already has one
                occ = [m for m in ps.modes if m < n]
                free = occ if occ and r.random() < 0.7 else list(range(n))
            if not free:
                return None
            return {"op": "ps_add", "ps": ref, "modes": [r.choice(free)],
                    "n": sorted(set(r.sample([0, 1, 2], r.randint(1, 2))))}
        if k == "edit_circuit":
            return self.edit_attached(cid)
        if k == "new_ps":
            if len(w.pool["ps"]) >= 4:
                return None
            return self.new_postsel(s.circuit.input_modes)
        if k == "pred_fault":
            if not cfg.get("faults"):
                return None
            preds = [p for p in w.pool["ps"] if w.meta["ps"][p]["pkind"] == "pred"]
            if not preds:
                return None
            return {"op": "pred_fault", "ps": self.pick(preds),
                    "k": r.randint(1, 6)}
        if not cfg.get("faults"):
            return None
        w.stats["fault:reject_issued"] += 1
        kk = r.choice(["circuit", "state_len", "pnr", "ps", "ps_add", "ps_add"])
        if kk == "ps_add":
            o = self.bad_ps_add()
            if o is not None:
                return o
            kk = "ps"
        o = {"op": "cons_set", "kind": "qs", "s": sid, "reject": True}
        if kk == "circuit":
            o.update(attr="circuit", value="x")
        elif kk == "state_len":
            o.update(attr="input_state", value=[1] * (s.circuit.input_modes + 1))
        elif kk == "pnr":
            o.update(attr="photon_counting", value=1)
        else:
            o.update(attr="post_select", value=3)
        return o

    def create(self):
        r, w = self.rng, self.w
        cands = self.small_circuits()
        if not cands:
            return None
        cid = self.pick(cands)
        c = w.pool["c"][cid]
        o = {"op": "new_quick", "c": cid, "state": self.new_state(c),
             "out": w.new_id("qs"), "pnr": r.random() < 0.6}
        ps = self.pick_postsel()
        if ps is not None:
            o["ps"] = ps
        return o


class AnalyzerUser(ConsumerClient):
    name = "analyzer_user"
    kind = "an"

    def propose(self):
        r, w, cfg = self.rng, self.w, self.cfg
        mine = list(w.pool["an"])
        if len(mine) < 1 or (len(mine) < 2 and r.random() < 0.1):
            cands = self.small_circuits()
            if not cands:
                return None
            return {"op": "new_analyzer", "c": self.pick(cands),
                    "out": w.new_id("an")}
        sid = self.pick(mine)
        a = w.pool["an"][sid]
        meta = w.meta["an"][sid]
        cid = meta.get("circuit")
        k = r.choice(["analyze", "analyze", "analyze_exp", "analyze_exp",
                      "circuit", "ps", "edit_circuit", "new_ps"])
        c = a.circuit
        if k in ("analyze", "analyze_exp"):
            n = c.input_modes
            if n < 1:
                return None
            nph = r.randint(0, max(0, min(2, 3 - herald_photons(c))))
            ins = []
            for _ in range(r.randint(1, 2)):
                s = [0] * n
                for _ in range(nph):
                    s[r.randrange(n)] += 1
                if s not in ins:
                    ins.append(s)
            o = {"op": "analyze", "s": sid, "inputs": ins}
            if k == "analyze_exp":
                exp = []
                for s in ins:
                    t = [0] * n
                    for _ in range(nph):
                        t[r.randrange(n)] += 1
                    exp.append([s, [t]])
                o["expected"] = exp
            return o
        if k == "circuit":
            cands = self.small_circuits()
            if not cands:
                return None
            return {"op": "cons_set", "kind": "an", "s": sid,
                    "attr": "circuit", "ref": self.pick(cands)}
        if k == "ps":
            ps = self.pick_postsel()
            o = {"op": "cons_set", "kind": "an", "s": sid,
                 "attr": "post_selection"}
            if ps is None:
                o["value"] = None
            else:
                o["ref"] = ps
            return o
        if k == "edit_circuit":
            return self.edit_attached(cid)
        if len(w.pool["ps"]) >= 4:
            return None
        return self.new_postsel(c.input_modes)
