"""C08 - operations never modify their arguments; failed calls change nothing.

Frame condition (DESIGN 3.6): after every step, every circuit and state in
the world that is not a declared target of the operation must be observably
bit-identical; if the call raised, nothing at all may have changed.
"""
from __future__ import annotations

from ..engine import obs_diff, obs_equal
from ..ops import targets
from . import Monitor

ARG_FIELDS = ("sub", "a", "b", "c", "parent")


class FrameMonitor(Monitor):
    prop = "C08"
    name = "frame"
    needs_snapshot = True

    def post(self, op, out, before, after):
        raised = out["status"] == "raised"
        allowed = set() if raised else targets(self.w, op)
        vs = []
        for key, old in before.items():
            new = after.get(key)
            if new is None:
                continue
            if key[0] == "c":
                same = obs_equal(old, new)
            else:
                same = old == new
            if same:
                continue
            if key in allowed:
                continue
            role = "bystander"
            for f in ARG_FIELDS:
                if op.get(f) == key[1] and key[0] == "c":
                    role = "target" if ("c", key[1]) in targets(self.w, op) else "argument"
            what = obs_diff(old, new) if key[0] == "c" else "state"
            sig = {"op": op["op"], "raised": raised, "role": role,
                   "what": what,
                   "shared": isinstance(key[1], str)}
            if raised:
                sig["exc"] = out["exc"]
            vs.append(self.v(sig, f"{key} changed ({what}) by {op['op']}"
                             f" raised={raised}", key=list(key)))
            self.w.probe("frame_breach")
        if raised:
            self.w.probe("failed_call_checked")
        return vs[:1]
