"""C08 - operations never modify their arguments; failed calls change nothing.

Frame condition (DESIGN 3.6): after every step, every circuit and state in
the world that is not a declared target of the operation must be observably
bit-identical; if the call raised, nothing at all may have changed.
"""
from __future__ import annotations

from ..engine import obs_circuit, obs_diff, obs_equal
from ..ops import targets
from . import Monitor

ARG_FIELDS = ("sub", "a", "b", "c", "parent")


class FrameMonitor(Monitor):
    prop = "C08"
    name = "frame"
    needs_snapshot = True

    def response(self, c):
        """How a throw-away copy of `c` answers a fixed follow-up program (a
        distinct phase on every mode number it accepts): state that the four
        observables do not show - which modes are private, what a mode number
        refers to - shows here."""
        try:
            cp = c.copy()
            for m in range(c.n_modes):
                try:
                    cp.ps(m, 0.1 * (m + 1))
                except Exception:  # noqa: BLE001
                    break          # beyond the user-visible range
            return obs_circuit(cp)
        except Exception as e:  # noqa: BLE001
            return (0, 0, {}, {}, ("exc", type(e).__name__))

    def pre(self, op, snap):
        self._resp = {}
        w = self.w
        for f in ARG_FIELDS:
            cid = op.get(f)
            if cid is not None and not isinstance(cid, (list, dict)) \
                    and w.has("c", cid) and cid not in self._resp:
                self._resp[cid] = self.response(w.pool["c"][cid])

    def post(self, op, out, before, after):
        raised = out["status"] == "raised"
        allowed = set() if raised else targets(self.w, op)
        vs = []
        for cid, old in getattr(self, "_resp", {}).items():
            if ("c", cid) in allowed or not self.w.has("c", cid):
                continue
            if ("c", cid) in before and not obs_equal(
                    before[("c", cid)], after.get(("c", cid), before[("c", cid)])):
                continue             # reported below with the plain observables
            new = self.response(self.w.pool["c"][cid])
            self.w.probe("later_behaviour_checked")
            if not obs_equal(old, new):
                sig = {"op": op["op"], "raised": raised, "role": "argument",
                       "what": "later_behaviour",
                       "shared": isinstance(cid, str)}
                if raised:
                    sig["exc"] = out["exc"]
                return [self.v(sig, f"('c', {cid!r}) answers a follow-up "
                               f"operation differently after {op['op']} "
                               f"(raised={raised}): {obs_diff(old, new)}",
                               key=["c", cid])]
        for key, old in before.items():
            new = after.get(key)
            if new is None:
                continue
            if key[0] == "c":
                same = obs_equal(old, new)
            else:
                same = old == new
            if same:
                continue
            if key in allowed:
                continue
            role = "bystander"
            for f in ARG_FIELDS:
                if op.get(f) == key[1] and key[0] == "c":
                    role = "target" if ("c", key[1]) in targets(self.w, op) else "argument"
            what = obs_diff(old, new) if key[0] == "c" else "state"
            sig = {"op": op["op"], "raised": raised, "role": role,
                   "what": what,
                   "shared": isinstance(key[1], str)}
            if raised:
                sig["exc"] = out["exc"]
            vs.append(self.v(sig, f"{key} changed ({what}) by {op['op']}"
                             f" raised={raised}", key=list(key)))
            self.w.probe("frame_breach")
        if raised:
            self.w.probe("failed_call_checked")
        return vs[:1]
