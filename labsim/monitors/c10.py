"""C10 - parameters are live, bounded and freezable.

Oracles (DESIGN 4, C10):
 1. parameter triple (value, min, max): rejected updates change nothing, an
    accepted update changes exactly the addressed field, min <= value <= max;
 2. constant twin: the circuit's U_full equals that of a circuit rebuilt from
    the construction log with the parameters' current values as constants; if
    the twin cannot be built or compiled the real read must raise
    CircuitCompilationError;
 3. get_all_params() is exactly the harness-tracked set, once each; frozen
    copies list none and keep the unitary of the moment they were taken.
"""
from __future__ import annotations

import numbers

import numpy as np

from .. import twin
from ..ops import plain
from . import Monitor

PARAM_OPS = {"param_set": "value", "param_min": "min", "param_max": "max"}


def _num(x) -> bool:
    return isinstance(x, numbers.Number) and not isinstance(x, bool)


def triple(p) -> tuple:
    return (p.get(), p.min_bound, p.max_bound)


def _same(a, b) -> bool:
    if type(a) is not type(b) and not (_num(a) and _num(b)):
        return False
    return a == b or (a is b)


class ParamMonitor(Monitor):
    prop = "C10"
    name = "params"

    def __init__(self, world):
        super().__init__(world)
        self.model: dict = {}

    def pre(self, op, snap):
        # learn about parameters created since the last step
        for pid, p in self.w.pool["p"].items():
            if pid not in self.model:
                self.model[pid] = triple(p)

    def post(self, op, out, before, after):
        w = self.w
        vs = []
        tgt = None
        field = None
        k = op["op"]
        if k in PARAM_OPS and w.has("p", op.get("p")):
            tgt, field, newv = op["p"], PARAM_OPS[k], plain(op["value"])
        elif k == "pdict_set" and w.has("pd", op.get("pd")):
            tgt = w.m("pd", op["pd"])["keys"].get(op["key"])
            field, newv = "value", plain(op["value"])
        for pid, p in w.pool["p"].items():
            real = triple(p)
            if pid not in self.model:
                self.model[pid] = real
                continue
            old = self.model[pid]
            if pid == tgt and out["status"] == "ok":
                exp = list(old)
                exp[("value", "min", "max").index(field)] = newv
                exp = tuple(exp)
                if not all(_same(a, b) for a, b in zip(real, exp)):
                    vs.append(self.v({"kind": "accepted_update_wrong",
                                      "op": k, "field": field},
                                     f"param {pid}: expected {exp}, got {real}"))
            else:
                if not all(_same(a, b) for a, b in zip(real, old)):
                    kind = ("rejected_update_changed" if pid == tgt
                            else "other_param_changed")
                    vs.append(self.v({"kind": kind, "op": k},
                                     f"param {pid}: was {old}, now {real} "
                                     f"(outcome {out['status']})"))
                    if pid == tgt:
                        w.probe("rejected_update_checked")
            if pid == tgt and out["status"] == "raised":
                w.probe("rejected_update_checked")
            v, lo, hi = real
            if _num(v):
                try:
                    outside = (lo is not None and _num(lo) and v < lo) or (
                        hi is not None and _num(hi) and v > hi)
                except TypeError:
                    outside = True     # not even comparable with its bounds
                if outside:
                    vs.append(self.v({"kind": "value_outside_bounds", "op": k},
                                     f"param {pid}: {real}"))
            elif lo is not None or hi is not None:
                vs.append(self.v({"kind": "nonnumeric_with_bounds", "op": k},
                                 f"param {pid}: {real}"))
            self.model[pid] = real
        return vs[:1]


class TwinMonitor(Monitor):
    prop = "C10"
    name = "twin"

    def __init__(self, world):
        super().__init__(world)
        self.frozen_u: dict = {}
        self.checked = 0

    def post(self, op, out, before, after):
        w = self.w
        vs = []
        for cid, c in w.pool["c"].items():
            meta = w.meta["c"][cid]
            if meta.get("shared") or meta.get("opaque"):
                continue
            tracked = meta.get("params", set())
            frozen = meta.get("frozen", False)
            inlog = twin.params_in_log(meta["log"])
            if not tracked and not frozen and not inlog:
                continue
            # (3) get_all_params
            try:
                listed = c.get_all_params()
            except Exception as e:  # noqa: BLE001
                vs.append(self.v({"kind": "get_all_params_raised"},
                                 f"circuit {cid}: {e!r}"))
                continue
            want = [w.pool["p"][p] for p in sorted(tracked) if p in w.pool["p"]]
            ids_listed = [id(p) for p in listed]
            if len(set(ids_listed)) != len(ids_listed):
                vs.append(self.v({"kind": "param_listed_twice",
                                  "frozen": frozen},
                                 f"circuit {cid}"))
            elif set(ids_listed) != {id(p) for p in want}:
                kind = ("frozen_copy_lists_params" if frozen and not tracked
                        else "param_list_mismatch")
                vs.append(self.v({"kind": kind, "frozen": frozen,
                                  "listed": len(listed), "tracked": len(want)},
                                 f"circuit {cid}: lists {len(listed)} params, "
                                 f"harness tracks {len(want)}"))
            # (2) constant twin
            try:
                t = twin.build(w, meta["log"])
                tu = t.U_full
                terr = None
            except twin.TwinUnavailable:
                continue
            except Exception as e:  # noqa: BLE001
                terr = e
                tu = None
            try:
                ru = c.U_full
                rerr = None
            except Exception as e:  # noqa: BLE001
                rerr = e
                ru = None
            self.checked += 1
            w.probe("twin_compared")
            if terr is not None:
                w.probe("twin_unbuildable")
                if rerr is None:
                    vs.append(self.v({"kind": "invalid_value_compiles"},
                                     f"circuit {cid}: a parameter value invalid "
                                     f"for its component ({terr!r}) compiled "
                                     "without error"))
                elif type(rerr).__name__ != "CircuitCompilationError":
                    vs.append(self.v({"kind": "invalid_value_wrong_error",
                                      "exc": type(rerr).__name__},
                                     f"circuit {cid}: {rerr!r}"))
                else:
                    w.probe("invalid_value_surfaced")
                continue
            if rerr is not None:
                vs.append(self.v({"kind": "valid_values_do_not_compile",
                                  "exc": type(rerr).__name__},
                                 f"circuit {cid}: {rerr!r} / cause "
                                 f"{rerr.__cause__!r}"))
                continue
            if ru.shape != tu.shape or not np.allclose(ru, tu, atol=1e-12, rtol=0,
                                                       equal_nan=False):
                kind = "frozen_copy_moved" if frozen and not tracked else "stale_or_wrong_unitary"
                vs.append(self.v({"kind": kind, "after_op": op["op"]},
                                 f"circuit {cid}: U_full differs from its "
                                 f"constant twin (max "
                                 f"{_maxdiff(ru, tu)})"))
        return vs[:1]


def _maxdiff(a, b):
    if a.shape != b.shape:
        return f"shape {a.shape} vs {b.shape}"
    return float(np.nanmax(np.abs(a - b)))
