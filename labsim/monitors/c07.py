"""C07 - sampling draws from the exact detected, heralded, post-selected
distribution; seeds reproduce.

 1. per call (exact): every returned state has the circuit's non-heralded mode
    count, passes post-selection, has >= min_detection photons, entries <= 1
    under threshold detection; N-outputs return exactly N, N-inputs <= N;
 2. reproducibility (exact): the same seeded call issued twice, with arbitrary
    PRNG perturbation in between, returns equal results;
 3. distribution (statistical, fixed seeds): the sampler's *own*
    probability_distribution pushed through an independent model of the
    documented detector pipeline; Bernstein bound with delta = 1e-9 over the
    whole batch; no outcome of probability zero may ever appear.
"""
from __future__ import annotations

import math

from ..ops import PREDICATES
from ..refmodel import bernstein_bound, push_through_detector
from . import Monitor

K_MAX = 1e8          # upper bound on comparisons in any batch
DELTA = 1e-9
BIG_L = math.log(2 * K_MAX / DELTA)
SAMPLING = ("sample", "sample_many", "sample_n_inputs", "sample_n_outputs",
            "quick_n_outputs")


class SamplingMonitor(Monitor):
    prop = "C07"
    name = "sampling"

    def accept_fn(self, op):
        """Independent evaluation of the post-selection used by this call."""
        w = self.w
        ref = op.get("ps")
        if ref is None or not w.has("ps", ref):
            return lambda st: True
        meta = w.meta["ps"][ref]
        if meta["pkind"] == "pred":
            base = PREDICATES[meta["pred"]]
            import lightworks as lw  # noqa: PLC0415
            return lambda st: bool(base(lw.State(list(st))))
        # the rules the harness saw being *accepted* (creation + successful
        # add() calls), not whatever the object currently holds
        rules = list(meta["rules"])

        def acc(st):
            for modes, ns in rules:
                try:
                    if sum(st[m] for m in modes) not in ns:
                        return False
                except IndexError:
                    return None   # rule refers to a mode the state lacks
            return True
        return acc

    def post(self, op, out, before, after):
        k = op["op"]
        if k not in SAMPLING:
            return []
        w = self.w
        kind = "qs" if k == "quick_n_outputs" else op.get("kind", "sam")
        if not w.has(kind, op["s"]):
            return []
        s = w.pool[kind][op["s"]]
        if w.extra.get("pred_fault_fired"):
            w.extra["pred_fault_fired"] = False
            return []
        if out["status"] != "ok":
            return self.refusal(op, out, s, kind)
        res = w.extra.get("last_result")
        sig = {"op": k, "consumer": kind}
        c = s.circuit
        hout = c.heralds["output"]
        heralded = bool(hout)
        n_free = c.n_modes - len(hout)
        md = op.get("md", 0)
        if kind == "sam":
            det = s.detector
            eta, p_dark, pnr = det.efficiency, det.p_dark, det.photon_counting
        else:
            eta, p_dark, pnr = 1, 0, s.photon_counting
        # ---------------- 1. per-call exact checks
        if k == "sample":
            states = {res: 1}
        else:
            states = dict(res)
        total = sum(states.values())
        vs = []
        if k in ("sample_n_outputs", "quick_n_outputs") and total != op["n"]:
            vs.append(self.v({**sig, "kind": "n_outputs_count"},
                             f"asked for {op['n']} samples, got {total}"))
        if k == "sample_n_inputs" and total > op["n"]:
            vs.append(self.v({**sig, "kind": "n_inputs_count"},
                             f"{total} samples from {op['n']} inputs"))
        if kind == "qs":
            accept = self.qs_accept(s)
        else:
            accept = self.accept_fn(op) if k in ("sample_n_inputs", "sample_n_outputs") else (lambda st: True)
        for st in states:
            t = tuple(st)
            if len(t) != n_free:
                vs.append(self.v({**sig, "kind": "state_length",
                                  "heralded": heralded},
                                 f"returned {st} with {len(t)} modes; the "
                                 f"circuit has {n_free} non-heralded modes"))
                break
            if not pnr and t and max(t) > 1:
                vs.append(self.v({**sig, "kind": "threshold_exceeded"},
                                 f"{st} with threshold detection"))
                break
            if sum(t) < md and k != "sample":
                vs.append(self.v({**sig, "kind": "min_detection"},
                                 f"{st} has fewer than {md} photons"))
                break
            a = accept(t)
            if a is False:
                vs.append(self.v({**sig, "kind": "post_selection"},
                                 f"{st} violates the post-selection"))
                break
        w.probe("per_call_checked")
        if vs:
            return vs[:1]
        # ---------------- 2. reproducibility
        second = w.extra.get("second_result")
        if op.get("twice") is not None and second is not None:
            w.probe("seed_pair_checked")
            if dict(second) != dict(res):
                return [self.v({**sig, "kind": "seed_not_reproducible"},
                               f"{k}(seed={op.get('seed')}) gave two "
                               "different results around a PRNG perturbation")]
        # ---------------- 3. distribution
        if total < 500 and k != "sample_n_inputs":
            return []
        if k == "sample_n_inputs" and op["n"] < 500:
            return []
        try:
            own = {tuple(st): float(p) for st, p in
                   s.probability_distribution.items()}
        except Exception:  # noqa: BLE001
            return []
        if kind == "qs":
            q = own          # already conditioned; taken as given (C05)
            norm = sum(q.values())
            q = {st: p / norm for st, p in q.items()}
            n = total
        else:
            if k == "sample_n_outputs" and (eta != 1 or p_dark != 0):
                w.probe("n_outputs_imperfect_detector_skipped")
                return []
            if k in ("sample", "sample_many"):
                # documented: sample() returns a detected output state; heralds
                # and post-selection are not arguments of this method
                q = push_through_detector(own, eta, p_dark, pnr, {},
                                          lambda st: True, 0)
                if heralded:
                    return []     # judged by the per-call check only
            else:
                acc = self.accept_fn(op)
                q = push_through_detector(own, eta, p_dark, pnr, dict(hout),
                                          lambda st: acc(st) is not False, md)
            if k == "sample_n_outputs":
                norm = sum(q.values())
                if norm <= 0:
                    return []
                q = {st: p / norm for st, p in q.items()}
                n = total
            else:
                n = op["n"]
        w.probe("distribution_checked")
        w.stats["c07:samples"] += n
        # accepted fraction (N inputs)
        if k == "sample_n_inputs":
            qa = min(1.0, sum(q.values()))
            fa = total / n
            if abs(fa - qa) > bernstein_bound(qa, n, BIG_L):
                return [self.v({**sig, "kind": "accepted_fraction"},
                               f"accepted {fa:.4f} of {n} inputs, exact "
                               f"accepted probability {qa:.4f}")]
        worst = None
        for st in set(q) | {tuple(x) for x in states}:
            qs = q.get(st, 0.0)
            cnt = 0
            for x, v in states.items():
                if tuple(x) == st:
                    cnt += v
            if qs <= 1e-15 and cnt > 0:
                return [self.v({**sig, "kind": "impossible_outcome"},
                               f"{st} sampled {cnt} times; the detector model "
                               "gives it probability zero")]
            dev = abs(cnt / n - qs)
            bound = bernstein_bound(min(qs, 1.0), n, BIG_L)
            if dev > bound and (worst is None or dev / bound > worst[0]):
                worst = (dev / bound, st, cnt / n, qs)
        if worst is not None:
            return [self.v({**sig, "kind": "frequency"},
                           f"outcome {worst[1]}: frequency {worst[2]:.4f} vs "
                           f"exact {worst[3]:.4f} over {n} samples "
                           f"({worst[0]:.1f}x the Bernstein bound)")]
        return []

    def qs_accept(self, q):
        ps = q.post_select
        w = self.w
        for ref, obj in w.pool["ps"].items():
            if obj is ps and w.meta["ps"][ref]["pkind"] == "rules":
                return self.accept_fn({"ps": ref})
        return lambda st: True if ps is None else bool(ps.validate(
            __import__("lightworks").State(list(st))))

    def refusal(self, op, out, s, kind):
        """Documented refusals are accepted as `raised`."""
        w = self.w
        w.probe("sampling_raised")
        k = op["op"]
        if kind != "sam" or k not in ("sample_n_inputs", "sample_n_outputs") \
                or op.get("n", 0) <= 0:
            return []
        # "returns exactly N samples" / "every returned state ..." presuppose a
        # return: a call on a valid configuration with accepting outcomes may
        # only be refused for the documented reasons
        msg = str(out.get("msg", ""))
        exc = out.get("exc")
        seed = op.get("seed")
        if exc == "TypeError" and not (seed is None or isinstance(seed, int)):
            return []                      # seed type outside random.seed's
        try:
            own = {tuple(st): float(p) for st, p in
                   s.probability_distribution.items()}
        except Exception:  # noqa: BLE001
            return []                      # the configuration itself is invalid
        det = s.detector
        eta, p_dark, pnr = det.efficiency, det.p_dark, det.photon_counting
        # the documented refusals, recognised by their condition (not by the
        # wording of the message)
        if k == "sample_n_outputs" and (eta != 1 or p_dark != 0):
            return []                      # N-outputs needs a perfect detector
        hout = dict(s.circuit.heralds["output"])
        if not pnr and any(n > 1 for n in hout.values()):
            return []                      # threshold detector, multi-photon herald
        if abs(sum(own.values()) - 1) > 1e-9:
            return []                      # stored distribution not normalised
        n_free = s.circuit.n_modes - len(hout)
        ref = op.get("ps")
        if ref is not None and w.has("ps", ref):
            pm = w.meta["ps"][ref]
            if pm["pkind"] == "rules" and any(
                    m >= n_free or m < 0 for modes, _ns in pm["rules"]
                    for m in modes):
                return []                  # a rule names a mode that is not there
        acc = self.accept_fn(op)
        undefined = []

        def accept(st):
            a = acc(st)
            if a is None:
                undefined.append(st)
            return a is not False
        try:
            q = push_through_detector(own, eta, p_dark, pnr, hout, accept,
                                      op.get("md", 0))
        except Exception:  # noqa: BLE001
            return []
        if undefined:
            return []                      # a rule names a mode that is not there
        norm = sum(q.values())
        if k == "sample_n_outputs" and norm <= 1e-6:
            return []                      # nothing to return: refusal is right
        w.probe("refusal_judged")
        return [self.v({"op": k, "consumer": kind, "kind": "raised_on_valid_configuration",
                        "exc": exc},
                       f"{k} raised {exc}: {msg[:80]} although the configuration "
                       f"is valid and the accepted probability is {norm:.3g}")]
