"""Monitors: one per claimed property (a check enables only its own)."""
from __future__ import annotations


class Monitor:
    prop = "C00"
    name = "base"
    needs_snapshot = False

    def __init__(self, world) -> None:
        self.w = world

    def pre(self, op: dict, snap: dict) -> None:
        pass

    def post(self, op: dict, out: dict, before: dict, after: dict) -> list:
        return []

    def finish(self) -> list:
        return []

    def v(self, sig: dict, detail: str, **extra) -> dict:
        d = {"property": self.prop, "monitor": self.name, "sig": sig,
             "detail": detail}
        d.update(extra)
        return d
