"""C09 - circuit rewrites preserve the transformation, share nothing.

Per rewrite step (unpack / compress / remove_nonadj / copy / frozen copy):
U_full (1e-9), heralds, input size, n_modes unchanged; structure
postconditions; and - the schedule-dependent part - a later mutation of the
original or of the copy leaves the other bit-identical, and every consumer
holding the rewritten circuit still reads the same distribution.
"""
from __future__ import annotations

import numpy as np

from ..engine import obs_diff, obs_equal
from ..ops import targets
from . import Monitor

REWRITES = ("unpack", "compress", "remove_nonadj")


def _count(spec) -> int:
    n = 0
    for s in spec:
        n += 1
        if type(s).__name__ == "Group":
            n += _count(s.circuit_spec)
    return n


def _has_group(spec) -> bool:
    return any(type(s).__name__ == "Group" for s in spec)


def _nonadj(spec) -> bool:
    for s in spec:
        tn = type(s).__name__
        if tn == "BeamSplitter" and abs(s.mode_1 - s.mode_2) != 1:
            return True
        if tn == "Group" and _nonadj(s.circuit_spec):
            return True
    return False


def _shape(spec) -> tuple:
    """Component layout, groups descended: (kind, modes) per component."""
    out = []
    for s in spec:
        tn = type(s).__name__
        modes = tuple(getattr(s, a) for a in ("mode", "mode_1", "mode_2")
                      if isinstance(getattr(s, a, None), int))
        out.append((tn, modes, _shape(s.circuit_spec) if tn == "Group" else ()))
    return tuple(out)


def _count_shape(sh) -> int:
    return sum(1 + _count_shape(x[2]) for x in sh)


def _close(a, b) -> bool:
    if isinstance(a, tuple) or isinstance(b, tuple):
        return isinstance(a, tuple) and isinstance(b, tuple) and a == b
    return a.shape == b.shape and bool(np.allclose(a, b, atol=1e-9, rtol=0,
                                                   equal_nan=True))


class RewriteMonitor(Monitor):
    prop = "C09"
    name = "rewrite"
    needs_snapshot = True

    def __init__(self, world):
        super().__init__(world)
        self.family: dict = {}      # cid -> family id (copy relation)
        self.shadows: dict = {}     # cid -> un-rewritten twin sharing the Parameters
        self.pre_count = None
        self.pre_dists = None

    def fam(self, cid):
        return self.family.setdefault(cid, cid)

    def relatives(self, op):
        """Heralded circuits in the copy family of the rewritten circuit."""
        w = self.w
        if op["op"] not in REWRITES or not w.has("c", op.get("c")):
            return []
        f = self.fam(op["c"])
        return [cid for cid, c in w.pool["c"].items()
                if cid != op["c"] and self.fam(cid) == f
                and c.n_modes != c.input_modes]

    def pre(self, op, snap):
        w = self.w
        self.pre_count = None
        self.pre_dists = None
        self.pre_params = None
        # what a relative's later operations will mean must not change either
        from .c08 import FrameMonitor  # noqa: PLC0415
        self.pre_resp = {cid: FrameMonitor.response(None, w.pool["c"][cid])
                         for cid in self.relatives(op)}
        # a rewrite or copy acts on one circuit: the component layout of every
        # other circuit (a shared Group object is rewritten through any holder)
        # stays as it was, also where the matrices happen to agree
        self.pre_shapes = {}
        if op["op"] in ("copy", *REWRITES) and w.has("c", op.get("c")):
            for cid, c in w.pool["c"].items():
                if cid != op["c"]:
                    try:
                        self.pre_shapes[cid] = _shape(c._get_circuit_spec())
                    except Exception:  # noqa: BLE001
                        pass
        if op["op"] in ("copy", *REWRITES) and w.has("c", op.get("c")):
            try:
                self.pre_params = [id(p) for p in
                                   w.pool["c"][op["c"]].get_all_params()]
            except Exception:  # noqa: BLE001
                self.pre_params = None
        if op["op"] in REWRITES and w.has("c", op.get("c")):
            c = w.pool["c"][op["c"]]
            # a parametrised circuit must stay equivalent to its un-rewritten
            # self for *every* later value of its parameters: keep a twin
            if op["c"] not in self.shadows and self.pre_params:
                try:
                    self.shadows[op["c"]] = c.copy()
                except Exception:  # noqa: BLE001
                    pass
            try:
                self.pre_count = _count(c._get_circuit_spec())
            except Exception:  # noqa: BLE001
                self.pre_count = None
            self.pre_dists = self._holder_dists(op["c"])

    def _holder_dists(self, cid) -> dict:
        """Distributions currently served by consumers holding circuit cid."""
        w = self.w
        out = {}
        for kind in ("sam", "qs"):
            for sid, s in w.pool[kind].items():
                if w.meta[kind][sid].get("circuit") != cid:
                    continue
                try:
                    out[(kind, sid)] = dict(s.probability_distribution)
                except Exception as e:  # noqa: BLE001
                    out[(kind, sid)] = ("exc", type(e).__name__)
        return out

    def post(self, op, out, before, after):
        w = self.w
        vs = []
        k = op["op"]
        ok = out["status"] == "ok"
        # ---- rewrite step itself
        if k in REWRITES and ok:
            key = ("c", op["c"])
            old, new = before.get(key), after.get(key)
            if old is not None and new is not None:
                w.probe("rewrite_" + k)
                if old[:4] != new[:4]:
                    vs.append(self.v({"kind": "rewrite_changed_" + obs_diff(old, new),
                                      "op": k}, f"{key}: {old[:4]} -> {new[:4]}"))
                elif not _close(old[4], new[4]):
                    vs.append(self.v({"kind": "rewrite_changed_unitary", "op": k},
                                     f"{key}: U_full changed by {k} (max "
                                     f"{_maxdiff(old[4], new[4])})"))
                c = w.pool["c"][op["c"]]
                # an in-place rewrite keeps the circuit's own Parameter objects
                if self.pre_params is not None:
                    try:
                        now = sorted(id(p) for p in c.get_all_params())
                    except Exception:  # noqa: BLE001
                        now = None
                    if now is not None and now != sorted(self.pre_params):
                        vs.append(self.v({"kind": "rewrite_changed_parameters",
                                          "op": k},
                                         f"{key}: get_all_params() listed "
                                         f"{len(self.pre_params)} objects before "
                                         f"{k}, {len(now)} (or other objects) after"))
                spec = c._get_circuit_spec()
                if k == "unpack" and _has_group(spec):
                    vs.append(self.v({"kind": "group_remains", "op": k}, str(key)))
                if k == "remove_nonadj" and _nonadj(spec):
                    vs.append(self.v({"kind": "nonadjacent_bs_remains", "op": k},
                                     str(key)))
                if k == "compress" and self.pre_count is not None and \
                        _count(spec) > self.pre_count:
                    vs.append(self.v({"kind": "compress_grew", "op": k},
                                     f"{key}: {self.pre_count} -> {_count(spec)}"))
                # holders still read the same distribution
                if self.pre_dists:
                    post = self._holder_dists(op["c"])
                    for hk, d0 in self.pre_dists.items():
                        d1 = post.get(hk)
                        if d1 is None:
                            continue
                        w.probe("holder_reread_after_rewrite")
                        if not _dist_equal(d0, d1):
                            vs.append(self.v({"kind": "holder_distribution_changed",
                                              "op": k, "holder": hk[0]},
                                             f"{hk} holding {key}"))
        if k == "copy" and ok:
            src, dst = ("c", op["c"]), ("c", op["out"])
            self.family[op["out"]] = self.fam(op["c"])
            # copying must leave the original as it was, its parameter
            # objects included (the copy may share them, never take them)
            if self.pre_params is not None:
                try:
                    now = [id(p) for p in w.pool["c"][op["c"]].get_all_params()]
                except Exception:  # noqa: BLE001
                    now = None
                if now is not None and sorted(now) != sorted(self.pre_params):
                    vs.append(self.v({"kind": "copy_altered_original_parameters",
                                      "freeze": bool(op.get("freeze"))},
                                     f"{src}: listed {len(self.pre_params)} "
                                     f"parameters before copy(), {len(now)} after"))
                if op.get("freeze"):
                    new = w.pool["c"][op["out"]]
                    try:
                        n_new = len(new.get_all_params())
                    except Exception:  # noqa: BLE001
                        n_new = 0
                    if n_new:
                        vs.append(self.v({"kind": "frozen_copy_has_parameters"},
                                         f"{dst} lists {n_new} parameters"))
            old, new = after.get(src), after.get(dst)
            if old is not None and new is not None:
                w.probe("copy_frozen" if op.get("freeze") else "copy_plain")
                if old[:4] != new[:4]:
                    vs.append(self.v({"kind": "copy_differs_" + obs_diff(old, new),
                                      "freeze": bool(op.get("freeze"))},
                                     f"{src} vs {dst}"))
                elif not _close(old[4], new[4]):
                    vs.append(self.v({"kind": "copy_differs_unitary",
                                      "freeze": bool(op.get("freeze"))},
                                     f"{src} vs {dst}: max {_maxdiff(old[4], new[4])}"))
        # ---- parametrised rewrites: equivalence under later parameter values
        if k not in REWRITES and ok:
            for f in ("c", "parent"):
                if op.get(f) in self.shadows and k != "copy":
                    del self.shadows[op[f]]      # edited: the twin is obsolete
        if k in ("param_set", "pdict_set") and ok and self.shadows:
            from ..engine import obs_circuit  # noqa: PLC0415
            for cid, sh in list(self.shadows.items()):
                if not w.has("c", cid):
                    continue
                a, b = obs_circuit(w.pool["c"][cid]), obs_circuit(sh)
                w.probe("rewritten_vs_twin_after_parameter_update")
                if a[:4] != b[:4] or not _close(a[4], b[4]):
                    vs.append(self.v({"kind": "rewrite_not_equivalent_for_other_parameter_values"},
                                     f"('c', {cid}): after a parameter update the "
                                     "rewritten circuit differs from its "
                                     f"un-rewritten twin (max {_maxdiff(a[4], b[4])})"))
                    del self.shadows[cid]
        for cid, old in getattr(self, "pre_shapes", {}).items():
            if not w.has("c", cid) or cid == op.get("out"):
                continue
            try:
                new = _shape(w.pool["c"][cid]._get_circuit_spec())
            except Exception:  # noqa: BLE001
                continue
            w.probe("bystander_layout_checked")
            if new != old:
                return [self.v({"kind": "shared_structure", "op": k,
                                "frozen": bool(w.meta["c"].get(cid, {}).get("frozen")),
                                "related": self.fam(cid) == self.fam(op["c"]),
                                "what": "component_layout"},
                               f"('c', {cid}): component layout changed "
                               f"({_count_shape(old)} -> {_count_shape(new)} "
                               f"components) when {k} acted on ('c', {op['c']})")]
        for cid, old in getattr(self, "pre_resp", {}).items():
            if not w.has("c", cid) or not obs_equal(
                    before.get(("c", cid)), after.get(("c", cid))):
                continue
            from .c08 import FrameMonitor  # noqa: PLC0415
            new = FrameMonitor.response(None, w.pool["c"][cid])
            w.probe("relative_later_behaviour_checked")
            if not obs_equal(old, new):
                return [self.v({"kind": "shared_structure", "op": k,
                                "frozen": False, "related": True,
                                "what": "later_behaviour"},
                               f"('c', {cid}) answers a follow-up operation "
                               f"differently after {k} acted on its copy")]
        # ---- sharing: a later mutation of one family member leaves the others
        # bit-identical (frozen copies also under parameter updates)
        allowed = set() if not ok else targets(w, op)
        tfam = {self.fam(x[1]) for x in (allowed if ok else set())
                if x[0] == "c"}
        if not ok:
            tfam = {self.fam(op[f]) for f in ("c", "parent") if f in op
                    and w.has("c", op[f])}
        own = {op.get("c"), op.get("parent")}
        for key, old in before.items():
            if key[0] != "c" or key in allowed:
                continue
            if not ok and key[1] in own:
                continue   # a failed call that changed its own target: C08's
            new = after.get(key)
            if new is None or obs_equal(old, new):
                continue
            meta = w.meta["c"].get(key[1], {})
            related = self.fam(key[1]) in tfam
            frozen = bool(meta.get("frozen"))
            if related or frozen or k in REWRITES or k == "copy":
                vs.append(self.v({"kind": "shared_structure", "op": k,
                                  "frozen": frozen, "related": related,
                                  "what": obs_diff(old, new)},
                                 f"{key} changed ({obs_diff(old, new)}) when "
                                 f"{k} acted on {sorted(allowed, key=str)}"))
        return vs[:1]


def _dist_equal(a, b) -> bool:
    if isinstance(a, tuple) or isinstance(b, tuple):
        return a == b
    if set(a) != set(b):
        return False
    return all(abs(a[k] - b[k]) <= 1e-9 for k in a)


def _maxdiff(a, b):
    if isinstance(a, tuple) or isinstance(b, tuple):
        return f"{a if isinstance(a, tuple) else 'array'} vs {b if isinstance(b, tuple) else 'array'}"
    if a.shape != b.shape:
        return f"shape {a.shape} vs {b.shape}"
    return float(np.nanmax(np.abs(a - b)))
