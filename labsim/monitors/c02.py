"""C02 - adding a sub-circuit wires it in order; heralded modes become
private ancillas.  Step-by-step refinement against the labelled-mode wiring
model `refmodel.Ref` (DESIGN 4, C02)."""
from __future__ import annotations

import random

import numpy as np

from lightworks.sdk.circuit.components import (BeamSplitter, Loss, ModeSwaps,
                                               PhaseShifter)

from ..engine import h_seed
from ..ops import plain, val
from ..refmodel import Ref, fock_states, real_amp
from . import Monitor

PRIMS = ("bs", "ps", "loss", "barrier", "mode_swaps")
TOL = 1e-9


class WiringMonitor(Monitor):
    prop = "C02"
    name = "wiring"

    def __init__(self, world):
        super().__init__(world)
        self.ref: dict = {}
        self.tainted: set = set()     # circuits the model cannot follow
        for cid, c in world.pool["c"].items():
            self.ref[cid] = Ref.from_real(c, c._internal_modes)

    # ---- model bookkeeping
    def flat(self, cid) -> bool:
        return self.ref[cid].n_anc == 0

    def pre(self, op, snap):
        self._span_anc = False
        w = self.w
        if op["op"] == "add" and w.has("c", op.get("parent")) and w.has("c", op.get("sub")):
            p, s = w.pool["c"][op["parent"]], w.pool["c"][op["sub"]]
            m = op.get("mode", 0)
            if isinstance(m, int) and not isinstance(m, bool):
                internal = sorted(p._internal_modes)
                for j, i in enumerate(internal):
                    upos = i - j   # user wire index the ancilla sits before
                    if m < upos < m + s.input_modes:
                        self._span_anc = True

    def post(self, op, out, before, after):
        w = self.w
        k = op["op"]
        ok = out["status"] == "ok"
        if k in ("new_circuit", "new_unitary", "lib_gate", "plus", "copy",
                 "reck_map_plain", "convert") and ok and "out" in op:
            c = w.pool["c"][op["out"]]
            if k == "copy" and op["c"] in self.ref and not self.flat(op["c"]):
                self.ref[op["out"]] = self.ref[op["c"]].copy()
                if op["c"] in self.tainted:
                    self.tainted.add(op["out"])
            else:
                self.ref[op["out"]] = Ref.from_real(c, c._internal_modes)
            return []
        cid = op.get("parent") if k == "add" else op.get("c")
        if cid not in self.ref or not w.has("c", cid):
            return []
        if cid in self.tainted:
            return []
        if op.get("reject") and ok:
            # a call the API documents as invalid was accepted: its meaning is
            # not defined by the property, the model stops following
            self.tainted.add(cid)
            w.probe("reject_accepted_untracked")
            return []
        c = w.pool["c"][cid]
        r = self.ref[cid]
        if k in ("unpack", "compress", "remove_nonadj"):
            # transformation-preserving by C09; the model is left as it is for
            # flat circuits (resynchronised), otherwise no longer followed
            if ok:
                if self.flat(cid):
                    r.resync_flat(c)
                else:
                    self.tainted.add(cid)
            return []
        if k == "herald":
            if ok:
                r.herald(op["n"], plain(op["i"]), plain(op.get("o")))
                return self.check(cid, op, "herald")
            return []
        if k in PRIMS:
            if not ok:
                return []
            if self.flat(cid):
                try:
                    r.resync_flat(c)
                except Exception:  # noqa: BLE001
                    self.tainted.add(cid)
                return []
            try:
                self.apply_primitive(r, op)
            except Exception:  # noqa: BLE001  (parameter-valued etc.)
                self.tainted.add(cid)
                return []
            w.probe("primitive_on_parent_with_ancilla")
            return self.check(cid, op, "primitive")
        if k == "add":
            sid = op["sub"]
            if sid not in self.ref or sid in self.tainted:
                self.tainted.add(cid)
                return []
            rs = self.ref[sid]
            m = op.get("mode", 0)
            valid = (isinstance(m, int) and not isinstance(m, bool)
                     and 0 <= m and sid != cid
                     and len(rs.free_in) == len(rs.free_out)
                     and len(rs.free_in) >= 1
                     and m + len(rs.free_in) <= r.n_user)
            if not ok:
                if valid:
                    return [self.v({"kind": "valid_add_raised",
                                    "exc": out["exc"],
                                    "parent_has_ancilla": r.n_anc > 0,
                                    "group": bool(op.get("group"))},
                                   f"add({sid} -> {cid} @ {m}) raised "
                                   f"{out['exc']}: {out.get('msg')}")]
                return []
            if not valid:
                # accepted although the model calls it invalid: not judged
                self.tainted.add(cid)
                return []
            span_has_anc = self._span_anc
            r.add(rs, m)
            if rs.n_anc or rs.ext:
                w.probe("add_heralded_sub")
            if rs.n_anc:
                w.probe("nested_add_depth_2")
            if len(rs.ext) >= 2:
                w.probe("sub_with_two_or_more_heralds")
            if any(n >= 1 for _a, _b, n in rs.ext):
                w.probe("photon_carrying_herald")
            if span_has_anc:
                w.probe("ancilla_inside_span")
                if any(a != b for a, b, _n in rs.ext):
                    w.probe("herald_in_ne_out_on_parent_with_ancilla")
            return self.check(cid, op, "add",
                              extra={"parent_had_ancilla_in_span": span_has_anc,
                                     "sub_heralds": len(rs.ext) + rs.n_anc,
                                     "herald_in_ne_out": any(a != b for a, b, _n in rs.ext),
                                     "group": bool(op.get("group"))})
        return []

    def _anc_in_span(self, c, m, width) -> bool:
        # harness-side flag for signatures / probes only
        r = self.ref
        try:
            internal = sorted(c._internal_modes)
        except Exception:  # noqa: BLE001
            return False
        # before the add the parent had ancillas; was one strictly inside?
        return len(internal) > 0

    def apply_primitive(self, r: Ref, op) -> None:
        w = self.w
        k = op["op"]
        nu = r.n_user
        if k == "bs":
            m1 = plain(op["m1"])
            m2 = plain(op.get("m2"))
            if m2 is None:
                m2 = m1 + 1
            refl = val(w, op.get("r", 0.5))
            loss = val(w, op.get("loss", 0))
            if hasattr(refl, "get") or hasattr(loss, "get"):
                raise ValueError("parameter")
            r.apply_component(BeamSplitter(m1, m2, refl, op.get("conv", "Rx")).get_unitary(nu))
            if loss > 0:
                for m in (m1, m2):
                    r.apply_component(Loss(m, loss).get_unitary(nu + 1), 1)
        elif k == "ps":
            phi = val(w, op["phi"])
            loss = val(w, op.get("loss", 0))
            if hasattr(phi, "get") or hasattr(loss, "get"):
                raise ValueError("parameter")
            r.apply_component(PhaseShifter(plain(op["m"]), phi).get_unitary(nu))
            if loss > 0:
                r.apply_component(Loss(plain(op["m"]), loss).get_unitary(nu + 1), 1)
        elif k == "loss":
            l = val(w, op["l"])
            if hasattr(l, "get"):
                raise ValueError("parameter")
            r.apply_component(Loss(plain(op["m"]), l).get_unitary(nu + 1), 1)
        elif k == "mode_swaps":
            r.apply_component(ModeSwaps({a: b for a, b in op["swaps"]}).get_unitary(nu))

    # ---- the refinement check
    def check(self, cid, op, what, extra=None) -> list:
        w = self.w
        c = w.pool["c"][cid]
        r = self.ref[cid]
        sig = {"kind": None, "after": what}
        sig.update(extra or {})

        def viol(kind, detail):
            s = dict(sig)
            s["kind"] = kind
            return [self.v(s, f"circuit {cid} after {op['op']}: {detail}")]
        try:
            u = c.U_full
        except Exception as e:  # noqa: BLE001
            return viol("does_not_compile", repr(e))
        if c.n_modes != r.n_modes:
            return viol("n_modes", f"real {c.n_modes} model {r.n_modes}")
        if c.input_modes != len(r.free_in):
            return viol("input_modes", f"real {c.input_modes} model {len(r.free_in)}")
        h = c.heralds
        if (sorted(h["input"].values()), sorted(h["output"].values())) != r.herald_multiset():
            return viol("herald_numbers",
                        f"real {h} model {r.herald_multiset()}")
        # ancillas carry the same number at input and output on the same mode
        same_mode = sum(1 for m, n in h["input"].items()
                        if h["output"].get(m) == n)
        if same_mode < r.n_anc:
            return viol("ancilla_not_same_mode",
                        f"{same_mode} modes heralded equally at input and "
                        f"output, model has {r.n_anc} ancillas")
        ni = c.input_modes
        rng = random.Random(h_seed("c02", w.step, cid))
        pairs = []
        ones = [[1 if j == i else 0 for j in range(ni)] for i in range(ni)]
        for x in ones:
            for y in ones:
                pairs.append((x, y))
        if len(pairs) > 40:
            pairs = rng.sample(pairs, 40)
        pairs.append(([0] * ni, [0] * ni))
        for nph in (2, 3):
            sts = list(fock_states(ni, nph))
            if not sts or len(sts) > 400:
                continue
            for _ in range(12 if nph == 2 else 5):
                pairs.append((rng.choice(sts), rng.choice(sts)))
        if not np.all(np.isfinite(u)):
            return viol("non_finite_unitary", "U_full contains nan or inf")
        worst, wp = 0.0, None
        for x, y in pairs:
            a = real_amp(c, x, y, u)
            b = r.amp(x, y)
            d = abs(a - b)
            if d > worst:
                worst, wp = d, (x, y, a, b)
        w.probe("amplitude_pairs", len(pairs))
        w.stats["c02:checks"] += 1
        if worst > TOL:
            x, y, a, b = wp
            return viol("amplitude",
                        f"<{y}|U|{x}> real {a:.6g} model {b:.6g} (|diff| {worst:.3g})")
        # the same transition amplitudes as the library's own Simulator reports
        # them (its herald placement is separate code from U_full / heralds)
        import lightworks as lw  # noqa: PLC0415
        from lightworks import emulator  # noqa: PLC0415
        some = rng.sample(pairs, min(len(pairs), 5))
        try:
            sim = emulator.Simulator(c)
            for x, y in some:
                res = sim.simulate(lw.State(x), [lw.State(y)])
                a = complex(res.array[0, 0])
                b = r.amp(x, y)
                if not abs(a - b) <= TOL:
                    return viol("simulator_amplitude",
                                f"Simulator <{y}|U|{x}> = {a:.6g}, model "
                                f"{b:.6g}")
        except Exception as e:  # noqa: BLE001
            return viol("simulator_raised", repr(e)[:160])
        w.probe("simulator_pairs", len(some))
        return []
