"""C11 - results depend only on the current configuration, not on history.

Fresh-object comparator (DESIGN 4, C11).  It piggybacks on the clients' own
read / sampling / analysis operations - the monitor itself never reads the
long-lived object, so it never refreshes a cache and never perturbs the
history under test.
"""
from __future__ import annotations

import numpy as np

import lightworks as lw
from lightworks import emulator as emu

from .. import seams
from ..ops import val
from . import Monitor

READ_OPS = ("read_dist", "sample", "sample_n_inputs", "sample_n_outputs",
            "quick_n_outputs", "analyze")


def _family(e) -> str:
    return type(e).__name__


def dist_equal(a: dict, b: dict, tol=1e-12) -> bool:
    if set(a) != set(b):
        return False
    return all(abs(a[k] - b[k]) <= tol for k in a)


SETTINGS = {
    "sam": ("circuit", "input_state", "source", "detector", "backend"),
    "qs": ("circuit", "input_state", "post_select", "photon_counting"),
    "an": ("circuit", "post_selection"),
}


def settings_of(kind, s) -> list:
    out = []
    for a in SETTINGS[kind]:
        try:
            v = getattr(s, a)
        except Exception as e:  # noqa: BLE001
            v = ("exc", type(e).__name__)
        if a == "input_state" and not isinstance(v, tuple):
            out.append((a, "value", tuple(v.s)))
        elif a == "photon_counting":
            out.append((a, "value", v))
        else:
            out.append((a, "id", id(v)))
    return out


class FreshMonitor(Monitor):
    prop = "C11"
    name = "fresh"

    def component_values(self) -> dict:
        """Values of the source / detector each Sampler carries."""
        w = self.w
        out = {}
        for sid, s in w.pool["sam"].items():
            try:
                src, det = s.source, s.detector
                out[sid] = ((id(src), src.brightness, src.purity,
                             src.indistinguishability, src.probability_threshold),
                            (id(det), det.efficiency, det.p_dark,
                             det.photon_counting))
            except Exception:  # noqa: BLE001
                pass
        return out

    def pre(self, op, snap):
        self._settings = None
        self._components = self.component_values()
        w = self.w
        if op["op"] == "cons_set" and w.has(op.get("kind"), op.get("s")):
            self._settings = settings_of(op["kind"], w.pool[op["kind"]][op["s"]])

    def fresh_ps(self, ps):
        """A rule set rebuilt from the rules the harness saw accepted, so that
        nothing hidden inside the long-lived PostSelection object (a memo of
        verdicts, say) is shared with the reference.  Predicates and the
        default object are passed through."""
        if type(ps).__name__ != "PostSelection":
            return ps
        w = self.w
        rules = None
        for ref, obj in w.pool["ps"].items():
            if obj is ps and w.meta["ps"][ref].get("pkind") == "rules":
                rules = list(w.meta["ps"][ref]["rules"])
        if rules is None:
            rules = [(tuple(r_.modes), tuple(r_.n_photons)) for r_ in ps.rules]
        f = lw.PostSelection(ps.multi_rules)
        for modes, ns in rules:
            f.add(tuple(modes), tuple(ns))
        return f

    def fresh(self, kind, s):
        if kind == "sam":
            # "the same settings": freshly created source and detector objects
            # carrying the current values, so that state hidden inside a
            # long-lived component cannot be shared with the reference
            src, det = s.source, s.detector
            fsrc = emu.Source(purity=src.purity, brightness=src.brightness,
                              indistinguishability=src.indistinguishability,
                              probability_threshold=src.probability_threshold)
            fdet = emu.Detector(efficiency=det.efficiency, p_dark=det.p_dark,
                                photon_counting=det.photon_counting)
            return emu.Sampler(s.circuit, s.input_state, source=fsrc,
                               detector=fdet, backend=s.backend.backend)
        if kind == "qs":
            return emu.QuickSampler(s.circuit, s.input_state,
                                    photon_counting=s.photon_counting,
                                    post_select=self.fresh_ps(s.post_select))
        a = emu.Analyzer(s.circuit)
        a.post_selection = self.fresh_ps(s.post_selection)
        return a

    def leak_check(self, op, out):
        """No operation changes the source / detector settings of a Sampler it
        does not address: edits reach a consumer only through objects it was
        given (harness-tracked), never through hidden sharing."""
        w = self.w
        k = op["op"]
        now = self.component_values()
        touched_src = touched_det = None
        if k == "src_set":
            touched_src = op.get("src")
        if k == "det_set":
            touched_det = op.get("det")
        for sid, old in self._components.items():
            new = now.get(sid)
            if new is None or new == old:
                continue
            meta = w.meta["sam"][sid]
            if k in ("cons_set", "cons_component_set", "new_sampler") and op.get("s", op.get("out")) == sid:
                continue
            if k == "cons_component_set":
                # the edited consumer shares this component by assignment?
                other = w.meta["sam"].get(op.get("s"), {})
                key = "src" if op["comp"] == "source" else "det"
                if other.get(key) is not None and other.get(key) == meta.get(key):
                    continue
            if touched_src is not None and meta.get("src") == touched_src and new[1] == old[1]:
                continue
            if touched_det is not None and meta.get("det") == touched_det and new[0] == old[0]:
                continue
            if touched_src is not None and meta.get("src") == touched_src and \
                    touched_det is None and new[1] == old[1]:
                continue
            what = "source" if new[0] != old[0] else "detector"
            held = meta.get("src" if what == "source" else "det")
            if k == "src_set" and what == "source" and held == touched_src:
                continue
            if k == "det_set" and what == "detector" and held == touched_det:
                continue
            w.probe("settings_leak_found")
            return [self.v({"kind": "settings_changed_by_unrelated_operation",
                            "op": k, "what": what},
                           f"sam:{sid}: its {what} settings changed during {k} "
                           "on an object it was never given")]
        return []

    def post(self, op, out, before, after):
        k = op["op"]
        w = self.w
        lv = self.leak_check(op, out)
        if lv:
            return lv
        if k == "cons_set" and out["status"] == "raised" and \
                self._settings is not None and w.has(op["kind"], op["s"]):
            w.probe("rejected_reconfiguration_checked")
            now = settings_of(op["kind"], w.pool[op["kind"]][op["s"]])
            if now != self._settings:
                changed = [a[0] for a, b in zip(self._settings, now) if a != b]
                return [self.v({"kind": "rejected_reconfiguration_took_effect",
                                "consumer": op["kind"], "attr": op.get("attr")},
                               f"{op['kind']}:{op['s']}: assignment of "
                               f"{op.get('attr')} raised {out['exc']} but "
                               f"{changed} changed")]
            return []
        if k not in READ_OPS:
            return []
        kind = op.get("kind", "sam")
        if k == "quick_n_outputs":
            kind = "qs"
        if k == "analyze":
            kind = "an"
        if not w.has(kind, op["s"]):
            return []
        s = w.pool[kind][op["s"]]
        meta = w.meta[kind][op["s"]]
        first = meta.get("reads", 0) == 0
        meta["reads"] = meta.get("reads", 0) + 1
        if w.extra.get("pred_fault_fired"):
            # injected callback failure inside this call: it must propagate;
            # nothing else is required of this step (the next read is checked)
            w.extra["pred_fault_fired"] = False
            w.probe("callback_failure_propagated" if out["status"] == "raised"
                    else "callback_failure_swallowed")
            if out["status"] != "raised":
                return [self.v({"kind": "callback_failure_swallowed", "op": k},
                               "an exception raised by the post-selection "
                               "predicate did not propagate")]
            meta["after_fault"] = True
            return []
        sig = {"op": k, "consumer": kind, "first_use": first and k != "read_dist"}
        # ---- fresh object
        try:
            f = self.fresh(kind, s)
        except Exception:  # noqa: BLE001
            w.probe("fresh_unbuildable")
            return []
        lres = w.extra.get("last_result")
        lok = out["status"] == "ok"
        w.extra["fresh_mode"] = True
        try:
            fres = self.call_fresh(f, kind, op)
            fok = True
        except Exception as e:  # noqa: BLE001
            fres, fok = e, False
        finally:
            w.extra["fresh_mode"] = False
        w.probe("fresh_compared")
        if meta.pop("after_fault", False):
            w.probe("first_read_after_fault")
        if k != "read_dist" and first:
            w.probe("sampling_without_prior_read")
        if lok != fok:
            if fok:
                return [self.v({**sig, "kind": "long_lived_raises_fresh_ok",
                                "exc": out.get("exc")},
                               f"{kind}:{op['s']} {k} raised "
                               f"{out.get('exc')}: {out.get('msg')} while a "
                               "fresh object with the same settings succeeds")]
            w.probe("fresh_raises")
            return [self.v({**sig, "kind": "stale_served_fresh_raises",
                            "exc": _family(fres)},
                           f"{kind}:{op['s']} {k} returned a result while a "
                           f"fresh object raises {fres!r}")]
        if not lok:
            w.probe("both_raise")
            return []
        return self.compare(sig, k, kind, op, s, f, lres, fres)

    def call_fresh(self, f, kind, op):
        w = self.w
        k = op["op"]
        if k == "read_dist":
            return dict(f.probability_distribution)
        if k == "sample":
            seams.set_stream(w, op["stream"])
            if op.get("script") is not None:
                seams.script_draws(w, op["script"])
            try:
                return f.sample()
            finally:
                seams.script_draws(w, [])
        if k in ("sample_n_inputs", "sample_n_outputs"):
            ps = None if op.get("ps") is None else w.pool["ps"].get(op["ps"])
            if ps is not None:
                ps = self.fresh_ps(ps)
            m = f.sample_N_inputs if k == "sample_n_inputs" else f.sample_N_outputs
            return m(op["n"], post_select=ps, min_detection=op.get("md", 0),
                     seed=val(w, op["seed"]))
        if k == "quick_n_outputs":
            return f.sample_N_outputs(op["n"], seed=val(w, op["seed"]))
        ins = [lw.State(list(x)) for x in op["inputs"]]
        exp = None
        if op.get("expected") is not None:
            exp = {lw.State(list(kk)): [lw.State(list(x)) for x in v]
                   for kk, v in op["expected"]}
        return f.analyze(ins if len(ins) > 1 else ins[0], exp)

    def pristine_check(self, sig, kind, op, s, lres):
        """The same question asked of a process without the run's history."""
        import pickle  # noqa: PLC0415

        w = self.w
        srv = w.extra.get("pristine")
        if srv is None or kind not in ("sam", "qs"):
            return []
        from ..engine import h_seed  # noqa: PLC0415
        if h_seed("pristine", w.step, op["s"]) % 3:
            return []
        try:
            req = {"kind": kind, "circuit": pickle.dumps(s.circuit, protocol=4),
                   "state": list(s.input_state.s)}
            if kind == "sam":
                src, det = s.source, s.detector
                req["source"] = (src.purity, src.brightness,
                                 src.indistinguishability,
                                 src.probability_threshold)
                req["detector"] = (det.efficiency, det.p_dark, det.photon_counting)
                req["backend"] = s.backend.backend
            else:
                ps = s.post_select
                tn = type(ps).__name__
                if tn == "PostSelection":
                    req["rules"] = [[list(r_.modes), list(r_.n_photons)]
                                    for r_ in ps.rules]
                    req["multi"] = ps.multi_rules
                elif tn != "DefaultPostSelection":
                    return []         # predicates do not travel
                req["pnr"] = s.photon_counting
            ans = srv.ask(req)
        except Exception:  # noqa: BLE001
            w.probe("pristine_unavailable")
            return []
        w.probe("pristine_compared")
        if ans[0] != "ok":
            return [self.v({**sig, "kind": "pristine_process_raises",
                            "exc": ans[1]},
                           f"{kind}:{op['s']}: a fresh object in a process "
                           f"without this run's history raises {ans[1]}: {ans[2]}")]
        pres = {__import__("lightworks").State(list(k_)): v_ for k_, v_ in ans[1].items()}
        if not dist_equal(lres, pres):
            return [self.v({**sig, "kind": "distribution_depends_on_process_history"},
                           f"{kind}:{op['s']}: the distribution differs from "
                           "the one a fresh object reports in a process where "
                           "nothing else has happened")]
        return []

    def compare(self, sig, k, kind, op, s, f, lres, fres):
        what = f"{kind}:{op['s']}"
        if k == "read_dist":
            if not dist_equal(lres, fres):
                return [self.v({**sig, "kind": "distribution_differs"},
                               f"{what}: cached distribution differs from a "
                               f"fresh object's ({len(lres)} vs {len(fres)} "
                               "outcomes)")]
            return self.pristine_check(sig, kind, op, s, lres)
        if k == "sample":
            if lres != fres:
                return [self.v({**sig, "kind": "sample_differs"},
                               f"{what}: sample() gave {lres}, fresh object "
                               f"with the same stream gave {fres}")]
            return []
        if k in ("sample_n_inputs", "sample_n_outputs", "quick_n_outputs"):
            if dict(lres) != dict(fres):
                return [self.v({**sig, "kind": "seeded_samples_differ"},
                               f"{what}: {k}(seed={op['seed']}) differs from "
                               "a fresh object's")]
            return []
        # analyze
        vs = []
        if lres.inputs != fres.inputs or lres.outputs != fres.outputs or \
                lres.array.shape != fres.array.shape or \
                not np.allclose(lres.array, fres.array, atol=1e-12, rtol=0):
            vs.append(self.v({**sig, "kind": "analysis_differs"},
                             f"{what}: analysis array differs from a fresh "
                             "analyzer's"))
        for attr in ("performance", "error_rate"):
            for a, b, where in ((lres, fres, "result"), (s, f, "analyzer")):
                ha, hb = hasattr(a, attr), hasattr(b, attr)
                if ha != hb:
                    vs.append(self.v({**sig, "kind": f"{attr}_presence",
                                      "where": where},
                                     f"{what}: {where}.{attr} present={ha}, "
                                     f"fresh present={hb}"))
                elif ha and abs(getattr(a, attr) - getattr(b, attr)) > 1e-12:
                    vs.append(self.v({**sig, "kind": f"{attr}_differs",
                                      "where": where},
                                     f"{what}: {where}.{attr} "
                                     f"{getattr(a, attr)} vs fresh "
                                     f"{getattr(b, attr)}"))
        return vs[:1]
