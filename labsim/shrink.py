"""Minimisation of a failing operation list by delta debugging.

A candidate list is executed in a forked child (process-global library state
must not leak between candidates); it is kept when the *same violation class*
(property, monitor, signature) re-occurs.
"""
from __future__ import annotations

import copy
import time

from .engine import ChildFailed, fork_call, run_one


def vclass(v: dict) -> tuple:
    return (v["property"], v["monitor"],
            tuple(sorted((k, str(x)) for k, x in v["sig"].items())))


def _try(profile, seed, cfg, ops, want, timeout=60.0):
    try:
        res = fork_call(run_one, (profile, seed, ops, cfg), timeout=timeout)
    except ChildFailed:
        return None
    for v in res["violations"]:
        if vclass(v) == want:
            return res
    return None


def simplify_candidates(o: dict) -> list:
    """Argument reductions tried by the minimiser (DESIGN Appendix A)."""
    out = []

    def variant(**kw):
        n = copy.deepcopy(o)
        for k, v in kw.items():
            if v is _DROP:
                n.pop(k, None)
            else:
                n[k] = v
        if n != o:
            out.append(n)
    k = o["op"]
    if k == "bs":
        variant(loss=_DROP)
        variant(conv=_DROP)
        if not isinstance(o.get("r"), dict):
            variant(r=0.5)
    elif k == "ps":
        variant(loss=_DROP)
        if not isinstance(o.get("phi"), dict):
            variant(phi=1.0)
    elif k == "add":
        variant(name=_DROP)
        variant(group=_DROP)
        variant(mode=0)
    elif k == "herald":
        variant(n=0)
        variant(o=_DROP)
    elif k == "new_unitary":
        variant(kind="identity")
    elif k == "copy":
        variant(freeze=_DROP)
    elif k in ("sample_n_inputs", "sample_n_outputs", "quick_n_outputs"):
        if o.get("n", 0) > 50:
            variant(n=50)
        variant(md=_DROP)
        variant(ps=_DROP)
    elif k == "display":
        variant(type="svg", loss=False, values=False, labels=_DROP)
    for fld in ("cl", "reject"):
        pass
    return out


_DROP = object()


def ddmin(profile, seed, cfg, ops, want, budget_s=90.0):
    t0 = time.time()
    cur = list(ops)
    tests = 0
    # 1. truncate to the failing step is already done by the engine.
    # 2. classic ddmin on chunks
    n = 2
    while len(cur) >= 2 and time.time() - t0 < budget_s:
        chunk = max(1, len(cur) // n)
        reduced = False
        i = 0
        while i < len(cur) and time.time() - t0 < budget_s:
            cand = cur[:i] + cur[i + chunk:]
            if not cand:
                i += chunk
                continue
            tests += 1
            res = _try(profile, seed, cfg, cand, want)
            if res is not None:
                cur = res["ops"]  # truncated at the failing step
                reduced = True
            else:
                i += chunk
        if reduced:
            n = max(n - 1, 2)
        else:
            if chunk == 1:
                break
            n = min(len(cur), n * 2)
    # 3. argument simplification
    changed = True
    while changed and time.time() - t0 < budget_s:
        changed = False
        for i, o in enumerate(list(cur)):
            for cand_op in simplify_candidates(o):
                cand = cur[:i] + [cand_op] + cur[i + 1:]
                tests += 1
                res = _try(profile, seed, cfg, cand, want)
                if res is not None and len(res["ops"]) <= len(cur):
                    cur = res["ops"]
                    changed = True
                    break
            if changed:
                break
    final = _try(profile, seed, cfg, cur, want)
    return cur, final, tests
