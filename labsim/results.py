"""C17: result containers index consistently; mappings conserve weight."""
from __future__ import annotations

import numpy as np

import lightworks as lw
from lightworks import emulator as emu
from lightworks.emulator.results import SamplingResult, SimulationResult

from . import seams
from .clients import Client
from .engine import Skip
from .monitors import Monitor
from .ops import op


def _states(xs, np_ints=False):
    if np_ints:
        # occupation numbers as numpy integers, as when states are built from
        # the rows of an array
        return [lw.State([np.int64(v) for v in x]) for x in xs]
    return [lw.State(list(x)) for x in xs]


def _plain_state(s):
    return lw.State([int(v) for v in s])


def gen_values(shape, seed, vtype):
    rng = np.random.default_rng(seed)
    if vtype == "complex":
        return rng.normal(size=shape) + 1j * rng.normal(size=shape)
    if vtype == "int":
        return rng.integers(0, 50, size=shape).astype(float)
    a = rng.random(size=shape)
    a[rng.random(size=shape) < 0.2] = 0.0
    return a


@op("result_synth")
def _result_synth(w, o):
    ins = _states(o["inputs"], o.get("np_states"))
    outs = _states(o["outputs"], o.get("np_states"))
    arr = gen_values((len(ins), len(outs)), o["seed"], o["vtype"])
    rt = o.get("rtype", "probability")
    r = w.call(SimulationResult, arr, rt, inputs=ins, outputs=outs)
    w.put("res", o["out"], r, rkind="sim", src=np.array(arr), rtype=rt,
          ins=[tuple(x) for x in o["inputs"]],
          outs=[tuple(x) for x in o["outputs"]])


@op("result_sampling_synth")
def _result_sampling_synth(w, o):
    outs = _states(o["outputs"], o.get("np_states"))
    rng = np.random.default_rng(o["seed"])
    counts = {s: int(rng.integers(0, 100)) for s in outs}
    r = w.call(SamplingResult, counts, lw.State(list(o["input"])))
    w.put("res", o["out"], r, rkind="samp",
          src={tuple(k): v for k, v in counts.items()})


@op("result_from_sim")
def _result_from_sim(w, o):
    c = w.get("c", o["c"])
    if o.get("reuse"):
        # one long-lived Simulator per circuit, used for many results
        sims = w.extra.setdefault("sims", {})
        if o["c"] not in sims:
            sims[o["c"]] = w.call(emu.Simulator, c)
        sim = sims[o["c"]]
    else:
        sim = w.call(emu.Simulator, c)
    ins = _states(o["inputs"])
    r = w.call(sim.simulate, ins if len(ins) > 1 else ins[0])
    w.put("res", o["out"], r, rkind="sim", src=np.array(r.array),
          rtype=r.result_type, ins=[tuple(x) for x in r.inputs],
          outs=[tuple(x) for x in r.outputs])


@op("result_from_analyzer")
def _result_from_analyzer(w, o):
    c = w.get("c", o["c"])
    a = w.call(emu.Analyzer, c)
    ins = _states(o["inputs"])
    r = w.call(a.analyze, ins if len(ins) > 1 else ins[0])
    w.put("res", o["out"], r, rkind="sim", src=np.array(r.array),
          rtype=r.result_type, ins=[tuple(x) for x in r.inputs],
          outs=[tuple(x) for x in r.outputs])


@op("result_from_sampler")
def _result_from_sampler(w, o):
    c = w.get("c", o["c"])
    s = w.call(emu.Sampler, c, lw.State(list(o["state"])))
    r = w.call(s.sample_N_inputs, o["n"], seed=o["seed"])
    w.put("res", o["out"], r, rkind="samp",
          src={tuple(k): v for k, v in r.items()})


@op("result_map")
def _result_map(w, o):
    r = w.get("res", o["r"])
    if "perm" in o:
        seams.set_perm(w, o["perm"])
    meth = r.apply_threshold_mapping if o["kind"] == "threshold" else r.apply_parity_mapping
    w.extra["last_result"] = None
    inv = bool(o.get("invert", False))
    form = o.get("iform", "pos")
    # the same flag in the forms a caller may write it
    flag = {"npbool": np.bool_(inv), "int": int(inv)}.get(form, inv)
    if form == "kw":
        def call():
            return meth(invert=flag)
    elif form == "default" and not inv:
        def call():
            return meth()
    else:
        def call():
            return meth(flag)
    m = w.call(call)
    w.extra["last_result"] = m
    second = None
    if "perm2" in o:
        seams.set_perm(w, o["perm2"])
        second = w.call(call)
    w.extra["second_result"] = second
    if "out" in o:
        meta = w.m("res", o["r"])
        if meta["rkind"] == "sim":
            w.put("res", o["out"], m, rkind="sim", src=np.array(m.array),
                  rtype=m.result_type, ins=[tuple(x) for x in m.inputs],
                  outs=[tuple(x) for x in m.outputs], mapped=True)
        else:
            w.put("res", o["out"], m, rkind="samp",
                  src={tuple(k): v for k, v in m.items()}, mapped=True)
    return len(m)


@op("result_display")
def _result_display(w, o):
    """Read-only presentation methods of the containers (must not alter them)."""
    import contextlib  # noqa: PLC0415
    import io  # noqa: PLC0415

    import matplotlib.pyplot as plt  # noqa: PLC0415

    r = w.get("res", o["r"])
    k = o["how"]
    if k == "dataframe":
        kw = {"threshold": o.get("threshold", 1e-12)}
        if w.m("res", o["r"])["rkind"] == "sim" and o.get("conv") is not None:
            kw["conv_to_probability"] = o["conv"]
        w.call(r.display_as_dataframe, **kw)
    elif k == "print":
        with contextlib.redirect_stdout(io.StringIO()):
            w.call(r.print_outputs)
    else:
        try:
            if w.m("res", o["r"])["rkind"] == "sim":
                w.call(r.plot, conv_to_probability=o.get("conv", False), show=False)
            else:
                w.call(r.plot, show=False)
        finally:
            plt.close("all")


@op("result_index")
def _result_index(w, o):
    w.get("res", o["r"])
    return None


class ResultUser(Client):
    name = "result_user"

    def rand_states(self, n_modes, k, allow_dup_images=True):
        r = self.rng
        out = []
        for _ in range(k * 3):
            s = [r.choice([0, 0, 1, 1, 2, 3]) for _ in range(n_modes)]
            if s not in out:
                out.append(s)
            if len(out) >= k:
                break
        return out

    def propose(self):
        r, w, cfg = self.rng, self.w, self.cfg
        ids = list(w.pool["res"])
        if len(ids) < 2 or (len(ids) < 8 and r.random() < 0.3):
            return self.create()
        rid = self.pick(ids)
        k = r.choice(["map", "map", "map", "index", "index", "display"])
        if k == "index":
            return {"op": "result_index", "r": rid}
        if k == "display":
            how = r.choice(["dataframe", "dataframe", "dataframe", "print", "plot"])
            if how == "plot" and r.random() < 0.7:
                how = "dataframe"
            return {"op": "result_display", "r": rid, "how": how,
                    "threshold": r.choice([1e-12, 1e-12, 1e-3, 0.5]),
                    "conv": r.choice([None, True, False])}
        o = {"op": "result_map", "r": rid,
             "kind": r.choice(["threshold", "parity"]),
             "invert": r.random() < 0.5, "perm": r.randrange(1 << 30),
             "iform": r.choice(["pos", "pos", "kw", "kw", "npbool", "int",
                                "default"])}
        if r.random() < 0.6:
            o["perm2"] = r.randrange(1 << 30)
        if len(ids) < 10 and r.random() < 0.5:
            o["out"] = w.new_id("res")
        return o

    def create(self):
        r, w, cfg = self.rng, self.w, self.cfg
        out = w.new_id("res")
        k = r.choice(["synth", "synth", "synth", "samp_synth", "sim", "analyzer",
                      "sampler"])
        if k == "synth":
            # zero modes is a legal State (a fully heralded circuit has no others)
            nm = r.choice([0, 1, 1, 2, 2, 3, 3, 4, 4])
            ins = self.rand_states(nm, r.randint(1, 4))
            outs = self.rand_states(nm, r.randint(1, 8))
            if r.random() < 0.1:
                outs = outs[:1]
            vt = r.choice(["real", "real", "int", "complex"])
            rt = "probability"
            if vt == "complex" or r.random() < 0.15:
                rt = "probability_amplitude"
            o = {"op": "result_synth", "inputs": ins, "outputs": outs,
                 "seed": r.randrange(1 << 30), "vtype": vt, "rtype": rt,
                 "out": out}
            if r.random() < 0.15:
                o["np_states"] = True
            return o
        if k == "samp_synth":
            nm = r.choice([0, 1, 1, 2, 2, 3, 3, 4, 4])
            o = {"op": "result_sampling_synth",
                 "outputs": self.rand_states(nm, r.randint(1, 8)),
                 "input": [1] * nm, "seed": r.randrange(1 << 30), "out": out}
            if r.random() < 0.15:
                o["np_states"] = True
            return o
        small = self.any_circuits(
            lambda cid, c: c.n_modes <= 5 and c.input_modes >= 1
            and sum(c.heralds["input"].values()) <= 1)
        if not small:
            return None
        cid = self.pick(small)
        c = w.pool["c"][cid]
        if k == "sampler":
            return {"op": "result_from_sampler", "c": cid,
                    "state": self.state_for(c, 3), "n": r.choice([50, 300]),
                    "seed": r.randrange(1 << 30), "out": out}
        nph = r.randint(1, 3)
        ins = []
        for _ in range(r.randint(1, 3)):
            s = [0] * c.input_modes
            for _ in range(nph):
                s[r.randrange(c.input_modes)] += 1
            if s not in ins:
                ins.append(s)
        o = {"op": "result_from_sim" if k == "sim" else "result_from_analyzer",
             "c": cid, "inputs": ins, "out": out}
        if k == "sim" and r.random() < 0.6:
            o["reuse"] = True
        return o


def thr(s, invert):
    t = tuple(1 if x >= 1 else 0 for x in s)
    return tuple(1 - x for x in t) if invert else t


def par(s, invert):
    return tuple(1 - (x % 2) for x in s) if invert else tuple(x % 2 for x in s)


def as_dict(r) -> dict:
    """{input tuple: {output tuple: value}} read through the nested mapping."""
    return {tuple(i): {tuple(o): v for o, v in row.items()}
            for i, row in r.items()}


class ResultMonitor(Monitor):
    prop = "C17"
    name = "results"

    def check_indexing(self, r, meta) -> list:
        """r[i,o] == r[i][o] == r.array[a,b] with a, b the positions in the
        result's *own* inputs / outputs lists, and equal to the data the result
        was built from (looked up by state, so an implementation is free to
        order its lists as it likes)."""
        if meta["rkind"] == "samp":
            src = meta["src"]
            if {tuple(k): v for k, v in r.items()} != src:
                return [self.v({"kind": "sampling_counts_differ"},
                               "SamplingResult does not return the counts it was built from")]
            for k, v in src.items():
                try:
                    got = r[lw.State([int(x) for x in k])]
                except KeyError:
                    return [self.v({"kind": "sampling_getitem_keyerror"},
                                   f"an equal State built from plain ints is "
                                   f"not found: {k}")]
                if got != v:
                    return [self.v({"kind": "sampling_getitem"}, str(k))]
            outs = [tuple(x) for x in r.outputs]
            if sorted(outs) != sorted(src.keys()) or len(outs) != len(src):
                return [self.v({"kind": "sampling_outputs_list"},
                               f"outputs {sorted(outs)} vs counted states "
                               f"{sorted(src.keys())}")]
            return []
        arr = r.array
        ins, outs = r.inputs, r.outputs
        if arr.shape != (len(ins), len(outs)):
            return [self.v({"kind": "array_shape"}, f"{arr.shape}")]
        src = meta.get("src")
        built = None
        if src is not None:
            built = {(i, o): src[a, b] for a, i in enumerate(meta["ins"])
                     for b, o in enumerate(meta["outs"])}
        if sorted(tuple(x) for x in ins) != sorted(meta["ins"]) or \
                sorted(tuple(x) for x in outs) != sorted(meta["outs"]):
            return [self.v({"kind": "inputs_outputs_lists_changed"},
                           "the result's input / output lists no longer hold "
                           "the states it was built with")]
        for a, i in enumerate(ins):
            for b, o in enumerate(outs):
                try:
                    # looked up with *equal* states built from plain ints
                    v1 = r[_plain_state(i), _plain_state(o)]
                    v2 = r[_plain_state(i)][_plain_state(o)]
                except KeyError:
                    return [self.v({"kind": "lookup_keyerror"},
                                   f"[{i},{o}] not found through an equal State")]
                v3 = arr[a, b]
                if not all(isinstance(v, (int, float, complex, np.number))
                           for v in (v1, v2)):
                    return [self.v({"kind": "index_returns_non_value"},
                                   f"r[{i},{o}] is a {type(v1).__name__}, "
                                   f"r[i][o] a {type(v2).__name__}")]
                if not (v1 == v2 == v3) and not (np.isnan(v1) and np.isnan(v3)):
                    return [self.v({"kind": "index_inconsistent"},
                                   f"r[{i},{o}]={v1}, r[i][o]={v2}, array={v3}")]
                if built is not None and v3 != built[(tuple(i), tuple(o))]:
                    return [self.v({"kind": "value_not_as_built"},
                                   f"[{i},{o}] {v3} vs {built[(tuple(i), tuple(o))]}")]
        return []

    def post(self, op, out, before, after):
        w = self.w
        k = op["op"]
        if k in ("result_synth", "result_sampling_synth", "result_from_sim",
                 "result_from_analyzer", "result_from_sampler", "result_index",
                 "result_display"):
            rid = op.get("out", op.get("r"))
            if k == "result_display" and w.has("res", rid):
                w.probe("display_then_reindexed")
                vs = self.check_indexing(w.pool["res"][rid], w.meta["res"][rid])
                for v in vs:
                    v["sig"]["after_display"] = op["how"]
                return vs
            if out["status"] != "ok" or not w.has("res", rid):
                return []
            w.probe("indexing_checked")
            return self.check_indexing(w.pool["res"][rid], w.meta["res"][rid])
        if k != "result_map" or not w.has("res", op["r"]):
            return []
        r = w.pool["res"][op["r"]]
        meta = w.meta["res"][op["r"]]
        sig = {"map": op["kind"], "invert": bool(op.get("invert")),
               "container": meta["rkind"]}
        if meta["rkind"] == "sim" and meta["rtype"] == "probability_amplitude":
            w.probe("amplitude_mapping_refused" if out["status"] == "raised"
                    else "amplitude_mapping_accepted")
            if out["status"] != "raised":
                return [self.v({**sig, "kind": "amplitude_mapping_not_refused"},
                               "mapping applied to an amplitude-valued result")]
            return []
        if out["status"] != "ok":
            return [self.v({**sig, "kind": "mapping_raised", "exc": out["exc"]},
                           f"{out['exc']}: {out.get('msg')}")]
        m = w.extra["last_result"]
        f = thr if op["kind"] == "threshold" else par
        inv = bool(op.get("invert"))
        w.probe("mapping_checked")
        # expected from the data the source result was built from
        if meta["rkind"] == "samp":
            exp: dict = {}
            for s, v in meta["src"].items():
                t = f(s, inv)
                exp[t] = exp.get(t, 0) + v
            got = {tuple(kk): v for kk, v in m.items()}
            if got != exp:
                return [self.v({**sig, "kind": "mapped_counts_wrong"},
                               f"expected {exp}, got {got}")]
            if sum(got.values()) != sum(meta["src"].values()):
                return [self.v({**sig, "kind": "weight_not_conserved"}, "")]
            mm = {"rkind": "samp", "src": got}
            return self.check_indexing(m, mm)
        src = meta["src"]
        exp = {}
        for a, i in enumerate(meta["ins"]):
            row = exp.setdefault(i, {})
            for b, o in enumerate(meta["outs"]):
                t = f(o, inv)
                row[t] = row.get(t, 0) + src[a, b]
        got = as_dict(m)
        all_out = set()
        for row in exp.values():
            all_out |= set(row)
        if sorted(tuple(x) for x in m.inputs) != sorted(meta["ins"]):
            return [self.v({**sig, "kind": "mapped_inputs_changed"}, "")]
        if set(tuple(x) for x in m.outputs) != all_out or \
                len(m.outputs) != len(all_out):
            return [self.v({**sig, "kind": "mapped_outputs_wrong"},
                           f"{sorted(tuple(x) for x in m.outputs)} vs {sorted(all_out)}")]
        for i, row in exp.items():
            for t in all_out:
                e = row.get(t, 0)
                g = got.get(i, {}).get(t)
                if g is None or not abs(g - e) <= 1e-12 * max(1, abs(e)):
                    return [self.v({**sig, "kind": "mapped_value_wrong"},
                                   f"input {i} image {t}: expected {e}, got {g}")]
            tot_src = float(np.sum(src[meta["ins"].index(i), :]))
            tot_map = float(sum(got[i].values()))
            if not abs(tot_src - tot_map) <= 1e-12 * max(1, abs(tot_src)):
                return [self.v({**sig, "kind": "weight_not_conserved"},
                               f"input {i}: {tot_src} -> {tot_map}")]
        mm = {"rkind": "sim", "src": None, "ins": [tuple(x) for x in m.inputs],
              "outs": [tuple(x) for x in m.outputs]}
        vs = self.check_indexing(m, mm)
        if vs:
            vs[0]["sig"].update(sig)
            vs[0]["sig"]["after_mapping"] = True
            return vs
        # the same mapping under another set order
        second = w.extra.get("second_result")
        if second is not None:
            w.probe("mapping_under_two_orders")
            if as_dict(second) != got:
                return [self.v({**sig, "kind": "mapping_depends_on_order"}, "")]
            mm2 = {"rkind": "sim", "src": None,
                   "ins": [tuple(x) for x in second.inputs],
                   "outs": [tuple(x) for x in second.outputs]}
            vs = self.check_indexing(second, mm2)
            if vs:
                return vs
            if [tuple(x) for x in second.outputs] != [tuple(x) for x in m.outputs]:
                w.probe("column_order_differed")
        # idempotence laws
        try:
            again = (m.apply_threshold_mapping if op["kind"] == "threshold"
                     else m.apply_parity_mapping)(inv)
            plain = (r.apply_threshold_mapping if op["kind"] == "threshold"
                     else r.apply_parity_mapping)(False)
        except Exception as e:  # noqa: BLE001
            return [self.v({**sig, "kind": "remapping_raised"}, repr(e))]
        want = as_dict(plain) if inv else got
        g2 = as_dict(again)
        for i in want:
            for t in set(want[i]) | set(g2.get(i, {})):
                if not abs(want[i].get(t, 0) - g2.get(i, {}).get(t, 0)) <= 1e-12:
                    return [self.v({**sig, "kind": "repeated_mapping_law"},
                                   f"input {i} image {t}")]
        w.probe("repeated_mapping_checked")
        return []
