"""Pristine oracle: a helper process forked at the start of a run, before any
operation has executed, that answers "what would a freshly created object with
these settings report in a process where nothing else has happened yet?".

The fresh-object comparator of C11 builds its reference in the *same* process
as the object under test, so state hidden at module level (a memo in a helper,
a class attribute) is shared by both sides and cancels out.  The pristine
process has the same code and the same seams but none of the run's history.
"""
from __future__ import annotations

import os
import pickle
import select
import struct


def _serve(rfd: int, wfd: int) -> None:
    import lightworks as lw  # noqa: PLC0415
    from lightworks import emulator as emu  # noqa: PLC0415

    def read_exact(n):
        buf = b""
        while len(buf) < n:
            b = os.read(rfd, n - len(buf))
            if not b:
                os._exit(0)
            buf += b
        return buf
    while True:
        (n,) = struct.unpack("<I", read_exact(4))
        req = pickle.loads(read_exact(n))
        try:
            kind = req["kind"]
            circuit = pickle.loads(req["circuit"])
            state = lw.State(list(req["state"]))
            if kind == "sam":
                pu, br, ind, thr = req["source"]
                ef, pd, pnr = req["detector"]
                s = emu.Sampler(circuit, state,
                                source=emu.Source(purity=pu, brightness=br,
                                                  indistinguishability=ind,
                                                  probability_threshold=thr),
                                detector=emu.Detector(efficiency=ef, p_dark=pd,
                                                      photon_counting=pnr),
                                backend=req["backend"])
            else:
                ps = None
                if req.get("rules") is not None:
                    ps = lw.PostSelection(req.get("multi", False))
                    for modes, ns in req["rules"]:
                        ps.add(tuple(modes), tuple(ns))
                s = emu.QuickSampler(circuit, state,
                                     photon_counting=req["pnr"], post_select=ps)
            d = s.probability_distribution
            res = ("ok", {tuple(k): float(v) for k, v in d.items()})
        except Exception as e:  # noqa: BLE001
            res = ("exc", type(e).__name__, str(e)[:200])
        out = pickle.dumps(res, protocol=4)
        os.write(wfd, struct.pack("<I", len(out)) + out)


class PristineServer:
    def __init__(self) -> None:
        r1, w1 = os.pipe()   # parent -> child
        r2, w2 = os.pipe()   # child -> parent
        self.pid = os.fork()
        if self.pid == 0:
            try:
                os.close(w1)
                os.close(r2)
                _serve(r1, w2)
            finally:
                os._exit(0)
        os.close(r1)
        os.close(w2)
        self.w, self.r = w1, r2
        self.asked = 0

    def ask(self, req: dict, timeout: float = 30.0):
        data = pickle.dumps(req, protocol=4)
        os.write(self.w, struct.pack("<I", len(data)) + data)
        self.asked += 1

        def read_exact(n):
            buf = b""
            while len(buf) < n:
                rl, _, _ = select.select([self.r], [], [], timeout)
                if not rl:
                    raise TimeoutError("pristine oracle did not answer")
                b = os.read(self.r, n - len(buf))
                if not b:
                    raise EOFError("pristine oracle died")
                buf += b
            return buf
        (n,) = struct.unpack("<I", read_exact(4))
        return pickle.loads(read_exact(n))

    def close(self) -> None:
        for fd in (self.w, self.r):
            try:
                os.close(fd)
            except OSError:
                pass
        try:
            os.waitpid(self.pid, 0)
        except ChildProcessError:
            pass
