"""Clients: logical users of the shared process.  Each proposes one operation
(a JSON dict) at a time, drawing every choice from the scheduler's PRNG."""
from __future__ import annotations

import math

from .ops import LIB_GATES, csize, n_user, plain

GATE_1Q = ["I", "H", "X", "Y", "Z", "S", "Sadj", "T", "Tadj", "SX"]
GATE_ROT = ["P", "Rx", "Ry", "Rz"]


def map_mode(c, m: int) -> int:
    for i in sorted(c._internal_modes):
        if m >= i:
            m += 1
    return m


def herald_photons(c) -> int:
    return sum(c.heralds["input"].values())


class Client:
    name = "client"

    def __init__(self, world, rng, cfg) -> None:
        self.w, self.rng, self.cfg = world, rng, cfg

    def propose(self) -> dict | None:
        raise NotImplementedError

    def observe(self, op, out) -> None:
        pass

    # ---- shared pickers
    def own_circuits(self, pred=None) -> list:
        w = self.w
        out = []
        for cid in w.pool["c"]:
            if isinstance(cid, str):
                continue
            if w.meta["c"][cid].get("opaque"):
                continue
            if pred is None or pred(cid, w.pool["c"][cid]):
                out.append(cid)
        return out

    def any_circuits(self, pred=None) -> list:
        w = self.w
        return [cid for cid, c in w.pool["c"].items()
                if pred is None or pred(cid, c)]

    def seed_value(self):
        """Seeds handed to the library: mostly arbitrary, sometimes boundary
        values (0 is falsy, 1, 2**32 - 1)."""
        r = self.rng
        x = r.random()
        if x < 0.12:
            return 0
        if x < 0.17:
            return 1
        if x < 0.2:
            return 2 ** 32 - 1
        return r.randrange(1 << 30)

    def pick(self, xs):
        return xs[self.rng.randrange(len(xs))] if xs else None

    def value(self, kind: str):
        """A component value: constant (with boundary values) or a Parameter."""
        r = self.rng
        pids = [p for p in self.w.pool["p"]
                if self.w.meta["p"][p].get("role") == kind]
        if pids and r.random() < self.cfg.get("p_param", 0.35):
            return {"p": self.pick(pids)}
        if kind == "r":
            v = r.choice([0.5, 0.5, 0.0, 1.0, round(r.random(), 3)])
        elif kind == "loss":
            v = r.choice([0, 0, 0, 0, 0.3, 1.0, round(r.random() * 0.9, 2)])
        else:
            v = round(r.uniform(0, 2 * math.pi), 4)
        if v and r.random() < self.cfg.get("p_numpy", 0.06):
            return {"np": "float64", "v": float(v)}
        return v

    def state_for(self, c, max_photons=2) -> list:
        n = c.input_modes
        k = self.rng.randint(0, max_photons) if n else 0
        s = [0] * n
        for _ in range(k):
            s[self.rng.randrange(n)] += 1
        return s

    def state_arg(self, c, max_photons=2):
        """Either a fresh occupation list or a State object from the pool
        (reused as an argument any number of times)."""
        w = self.w
        if self.cfg.get("pool_states") and self.rng.random() < 0.5:
            ok = [sid for sid, st in w.pool["st"].items()
                  if len(st) == c.input_modes and st.n_photons <= max_photons]
            if ok:
                return {"st": self.pick(ok)}
        return self.state_for(c, max_photons)


class Builder(Client):
    name = "builder"

    def propose(self):
        r, w, cfg = self.rng, self.w, self.cfg
        own = self.own_circuits()
        if len(own) < cfg["min_circuits"] or (
            len(own) < cfg["max_circuits"] and r.random() < 0.12
        ):
            return self.create()
        arrs = [c for c in w.extra.get("caller_arrays", {}) if w.has("c", c)]
        if arrs and r.random() < 0.03:
            # the caller reuses the buffer it built a Unitary from
            return {"op": "caller_mutate", "what": "array",
                    "c": self.pick(arrs), "seed": r.randrange(1 << 30)}
        cid = self.pick(own)
        return self.primitive(cid)

    def create(self):
        r, w, cfg = self.rng, self.w, self.cfg
        k = r.random()
        out = w.new_id("c")
        if k < 0.55:
            return {"op": "new_circuit", "n": r.randint(1, cfg["max_modes"]),
                    "out": out}
        if k < 0.8:
            return {"op": "new_unitary", "n": r.randint(2, 5),
                    "seed": r.randrange(1 << 30),
                    "kind": r.choice(["haar", "haar", "identity", "perm",
                                      "sparse", "block", "near", "near"]),
                    "out": out}
        names = GATE_1Q + GATE_ROT + ["CZ", "CNOT", "CZ_Heralded",
                                       "CNOT_Heralded"]
        if cfg.get("big_gates"):
            names += ["CCZ", "CCNOT"]
        name = r.choice(names)
        args = []
        if name in GATE_ROT:
            args = [round(r.uniform(0, 6.3), 4)]
        elif name in ("CNOT", "CNOT_Heralded"):
            args = [r.randint(0, 1)]
        elif name == "CCNOT":
            args = [r.randint(0, 2)]
        return {"op": "lib_gate", "name": name, "args": args, "out": out}

    def primitive(self, cid):
        o = self._primitive(cid)
        if o is not None and self.rng.random() < self.cfg.get("p_numpy", 0.06) / 2:
            # mode numbers as numpy integers (legal wherever an int is)
            for f in ("m", "m1", "m2"):   # (herald modes given as numpy integers are accepted by Circuit.herald but rejected at compile time: not generated)
                if isinstance(o.get(f), int) and not isinstance(o.get(f), bool):
                    o[f] = {"np": "int64", "v": o[f]}
        return o

    def _primitive(self, cid):
        r, w = self.rng, self.w
        c = w.pool["c"][cid]
        nu = n_user(c)
        ncomp, nloss = csize(w, cid)
        if ncomp >= self.cfg.get("max_components", 48):
            return None
        kinds = ["ps", "ps", "loss", "barrier"]
        if self.cfg.get("no_loss") or nloss >= self.cfg.get("max_loss", 6):
            kinds = ["ps", "ps", "barrier"]
            if self.cfg.get("no_loss") and nloss < 3 and r.random() < 0.08:
                # a loss element whose value is exactly zero: the circuit is
                # still lossless
                return {"op": "loss", "c": cid, "m": r.randrange(nu), "l": 0} \
                    if nu else None
        if nu >= 2:
            kinds += ["bs", "bs", "bs", "mode_swaps", "mode_swaps"]
        if c.input_modes >= 2 and len(c.heralds["input"]) < self.cfg["max_heralds"]:
            kinds += ["herald", "herald"]
        if nu == 0:
            return None
        k = r.choice(kinds)
        if "herald" in kinds and r.random() < self.cfg.get("herald_boost", 0):
            k = "herald"
        if k == "bs":
            m1, m2 = r.sample(range(nu), 2)
            o = {"op": "bs", "c": cid, "m1": m1, "r": self.value("r")}
            if m2 == m1 + 1 and r.random() < 0.5:
                pass  # default second mode
            else:
                o["m2"] = m2
            if r.random() < 0.35 and "loss" in kinds:
                o["loss"] = self.value("loss")
            if r.random() < 0.4:
                o["conv"] = r.choice(["Rx", "H"])
            return o
        if k == "ps":
            o = {"op": "ps", "c": cid, "m": r.randrange(nu),
                 "phi": self.value("phi")}
            if r.random() < 0.3 and "loss" in kinds:
                o["loss"] = self.value("loss")
            return o
        if k == "loss":
            l = self.value("loss")
            if plain(l) == 0:
                l = 0.5
            return {"op": "loss", "c": cid, "m": r.randrange(nu), "l": l}
        if k == "barrier":
            if r.random() < 0.06:
                return {"op": "barrier", "c": cid, "modes": []}
            if r.random() < 0.5:
                return {"op": "barrier", "c": cid}
            ms = r.sample(range(nu), r.randint(1, nu))
            return {"op": "barrier", "c": cid, "modes": ms}
        if k == "mode_swaps":
            if r.random() < 0.05:
                return {"op": "mode_swaps", "c": cid, "swaps": []}
            if r.random() < 0.08:
                # a swap dictionary with a fixed point next to a genuine swap
                ms = r.sample(range(nu), min(nu, 3))
                if len(ms) == 3:
                    return {"op": "mode_swaps", "c": cid,
                            "swaps": [[ms[0], ms[0]], [ms[1], ms[2]], [ms[2], ms[1]]]}
            ms = r.sample(range(nu), r.randint(2, min(nu, 5)))
            tg = ms[:]
            r.shuffle(tg)
            return {"op": "mode_swaps", "c": cid,
                    "swaps": [[a, b] for a, b in zip(ms, tg)]}
        # herald
        hin, hout = c.heralds["input"], c.heralds["output"]
        free_i = [m for m in range(nu) if map_mode(c, m) not in hin]
        free_o = [m for m in range(nu) if map_mode(c, m) not in hout]
        if not free_i or not free_o:
            return None
        i = r.choice(free_i)
        budget = self.cfg["max_herald_photons"] - herald_photons(c)
        n = r.choice([0, 0, 1, 1, 2])
        n = max(0, min(n, budget))
        o = {"op": "herald", "c": cid, "n": n, "i": i}
        others = [m for m in free_o if m != i]
        if others and r.random() < self.cfg.get("p_herald_in_ne_out", 0.3):
            o["o"] = r.choice(others)
        elif r.random() < 0.3 or i not in free_o:
            o["o"] = r.choice(free_o)
        return o


class Composer(Client):
    name = "composer"

    def __init__(self, *a):
        super().__init__(*a)
        self.last_sub = None

    def propose(self):
        r, w, cfg = self.rng, self.w, self.cfg
        # keep editing a sub that was just added somewhere
        if self.last_sub is not None and r.random() < 0.3:
            cid, self.last_sub = self.last_sub, None
            if w.has("c", cid) and not isinstance(cid, str):
                return Builder(w, r, cfg).primitive(cid)
        if r.random() < 0.12:
            return self.plus()
        parents = self.own_circuits(lambda cid, c: n_user(c) >= 1)
        if not parents:
            return None
        for _ in range(6):
            pid = self.pick(parents)
            p = w.pool["c"][pid]
            nu = n_user(p)

            def ok(cid, c, p=p, pid=pid, nu=nu):
                if cid == pid or w.meta["c"][cid].get("opaque"):
                    return False
                if c.input_modes > nu or c.input_modes < 1:
                    return False
                nh = len(c.heralds["input"])
                if p.n_modes + nh > cfg["max_total_modes"]:
                    return False
                if len(p._internal_modes) + nh > cfg["max_ancillas"]:
                    return False
                if herald_photons(p) + herald_photons(c) > cfg["max_herald_photons"]:
                    return False
                pa, pb = csize(w, pid)
                sa, sb = csize(w, cid)
                if pa + sa > cfg.get("max_components", 48) or \
                        pb + sb > cfg.get("max_loss", 6):
                    return False
                return w.meta["c"][cid].get("depth", 0) < cfg["max_depth"]
            subs = self.any_circuits(ok)
            if not cfg.get("use_shared", True):
                subs = [s for s in subs if not isinstance(s, str)]
            if not subs:
                continue
            # bias: prefer heralded subs, they create the interesting state
            hs = [s for s in subs if w.pool["c"][s].heralds["input"]]
            hh = [s for s in hs
                  if len(w.pool["c"][s].heralds["input"]) >= 2
                  or list(w.pool["c"][s].heralds["input"]) != list(w.pool["c"][s].heralds["output"])]
            if hh and r.random() < 0.35:
                sid = self.pick(hh)
            else:
                sid = self.pick(hs) if hs and r.random() < 0.6 else self.pick(subs)
            s = w.pool["c"][sid]
            o = {"op": "add", "parent": pid, "sub": sid,
                 "mode": r.randint(0, nu - s.input_modes)}
            if r.random() < 0.5:
                o["group"] = True
            if r.random() < 0.15:
                o["name"] = "blk"
            return o
        return None

    def plus(self):
        w, r = self.w, self.rng
        own = self.any_circuits(
            lambda cid, c: not c.heralds["input"] and c.n_modes <= 8
            and not w.meta["c"][cid].get("opaque"))
        if not own:
            return None
        a = self.pick(own)
        n = w.pool["c"][a].n_modes
        bs = [b for b in own if w.pool["c"][b].n_modes == n
              and csize(w, a)[0] + csize(w, b)[0] <= self.cfg.get("max_components", 48)
              and csize(w, a)[1] + csize(w, b)[1] <= self.cfg.get("max_loss", 6)]
        if not bs:
            return None
        b = self.pick(bs)
        return {"op": "plus", "a": a, "b": b, "out": w.new_id("c")}

    def observe(self, op, out):
        if op["op"] == "add" and out["status"] == "ok":
            self.last_sub = op["sub"]


class Rewriter(Client):
    name = "rewriter"

    def __init__(self, *a):
        super().__init__(*a)
        self.queue: list = []

    def ancilla_sandwich(self):
        """A parent with a private ancilla in the middle of its modes, the same
        transposition before and after a grouped block that spans the ancilla
        and ends exactly on the swapped mode, then a compression."""
        r, w = self.rng, self.w
        if len(self.own_circuits()) + 3 > self.cfg["max_circuits"] + 3:
            return None
        nu = r.randint(4, 5)
        par, her, blk = w.new_id("c"), w.new_id("c"), w.new_id("c")
        hm = r.randint(1, 2)                 # herald inside the 3-mode sub
        at = r.randint(0, nu - 2)            # where the heralded sub goes
        upos = at + hm                       # user wire the ancilla sits before
        wdt = r.randint(2, 3)
        lo_a, hi_a = max(upos, wdt - 1), min(upos + wdt - 2, nu - 2)
        if lo_a > hi_a:
            return None
        a = r.randint(lo_a, hi_a)
        t = {"op": "mode_swaps", "c": par, "swaps": [[a, a + 1], [a + 1, a]]}
        q = [{"op": "new_circuit", "n": nu, "out": par},
             {"op": "new_circuit", "n": 3, "out": her},
             {"op": "bs", "c": her, "m1": 0, "m2": 1, "r": round(r.uniform(0.2, 0.8), 3)},
             {"op": "bs", "c": her, "m1": 1, "m2": 2, "r": round(r.uniform(0.2, 0.8), 3)},
             {"op": "herald", "c": her, "n": r.choice([0, 0, 1]), "i": hm},
             {"op": "add", "parent": par, "sub": her, "mode": at},
             {"op": "new_circuit", "n": wdt, "out": blk},
             {"op": "bs", "c": blk, "m1": 0, "m2": wdt - 1, "r": round(r.uniform(0.2, 0.8), 3)},
             {"op": "ps", "c": blk, "m": wdt - 1, "phi": round(r.uniform(0.3, 3), 3)},
             dict(t)]
        if r.random() < 0.4:
            q.append({"op": "ps", "c": par, "m": r.choice([m for m in range(nu) if m not in (a, a + 1)]),
                      "phi": round(r.uniform(0.1, 6), 3)})
        q.append({"op": "add", "parent": par, "sub": blk, "mode": a - wdt + 1,
                  "group": True})
        q.append(dict(t))
        q.append({"op": "compress", "c": par})
        self.queue = q
        w.stats["intent:ancilla_sandwich"] += 1
        return self.next_queued()

    def self_sum(self):
        """A block that holds several mode swaps, summed with itself (or with
        its shallow copy) through `+`: the same component objects then occur
        twice in one circuit when it is rewritten."""
        r, w = self.rng, self.w
        if len(self.own_circuits()) + 3 > self.cfg["max_circuits"] + 3:
            return None
        nu = r.randint(3, 5)
        blk, tot = w.new_id("c"), w.new_id("c")
        a, b = sorted(r.sample(range(nu), 2))
        if b - a < 2:
            a, b = 0, nu - 1
        q = [{"op": "new_circuit", "n": nu, "out": blk},
             {"op": "bs", "c": blk, "m1": a, "m2": b,
              "r": round(r.uniform(0.2, 0.8), 3)}]
        if r.random() < 0.5:
            q.append({"op": "ps", "c": blk, "m": r.randrange(nu),
                      "phi": round(r.uniform(0.1, 6), 3)})
        if r.random() < 0.5:
            c, d = r.sample(range(nu), 2)
            q.append({"op": "mode_swaps", "c": blk, "swaps": [[c, d], [d, c]]})
        q.append({"op": "remove_nonadj", "c": blk})
        other = blk
        if r.random() < 0.4:
            other = w.new_id("c")
            q.append({"op": "copy", "c": blk, "out": other})
        q.append({"op": "plus", "a": blk, "b": other, "out": tot})
        q.append({"op": r.choice(["compress", "compress", "unpack",
                                  "remove_nonadj"]), "c": tot})
        if r.random() < 0.5:
            q.append({"op": "compress", "c": blk})
        self.queue = q
        w.stats["intent:self_sum"] += 1
        return self.next_queued()

    def parameter_sandwich(self):
        """Swaps around a component whose *Parameter* currently makes it an
        identity (loss 0, phase 0, reflectivity 1), a rewrite, and only then a
        value for which it is not: the rewrite must hold for every value."""
        r, w = self.rng, self.w
        if len(w.pool["p"]) >= 10:
            return None
        nu = r.randint(3, 4)
        cid, pid = w.new_id("c"), w.new_id("p")
        a = r.randrange(nu - 1)
        t = {"op": "mode_swaps", "c": cid, "swaps": [[a, a + 1], [a + 1, a]]}
        kind = r.choice(["loss", "loss", "phi", "r"])
        m = r.choice([a, a + 1])
        if kind == "loss":
            mid = {"op": "loss", "c": cid, "m": m, "l": {"p": pid}}
            v0, v1 = 0, round(r.uniform(0.1, 0.8), 3)
        elif kind == "phi":
            mid = {"op": "ps", "c": cid, "m": m, "phi": {"p": pid}}
            v0, v1 = 0, round(r.uniform(0.3, 3), 3)
        else:
            mid = {"op": "bs", "c": cid, "m1": a, "m2": a + 1, "r": {"p": pid}}
            v0, v1 = 1, round(r.uniform(0.2, 0.8), 3)
        q = [{"op": "new_param", "value": v0, "out": pid, "role": kind,
              **({"bounds": [0, 1]} if kind != "phi" and r.random() < 0.5 else {})},
             {"op": "new_circuit", "n": nu, "out": cid},
             {"op": "bs", "c": cid, "m1": 0, "m2": nu - 1, "r": 0.4},
             dict(t), mid, dict(t),
             {"op": r.choice(["compress", "compress", "remove_nonadj", "unpack"]),
              "c": cid},
             {"op": "param_set", "p": pid, "value": v1}]
        self.queue = q
        w.stats["intent:parameter_sandwich"] += 1
        return self.next_queued()

    def swap_chain(self):
        """Several overlapping mode swaps separated by blocking components,
        then a compression: the interesting inputs of compress_mode_swaps."""
        r, w = self.rng, self.w
        cands = self.own_circuits(lambda cid, c: n_user(c) >= 3)
        if not cands:
            return None
        anc = [c for c in cands if w.pool["c"][c]._internal_modes]
        cid = self.pick(anc) if anc and r.random() < 0.75 else self.pick(cands)
        nu = n_user(w.pool["c"][cid])
        small = self.any_circuits(
            lambda s_, sc: s_ != cid and not w.meta["c"][s_].get("opaque")
            and 2 <= sc.input_modes <= nu and not sc.heralds["input"]
            and sc.n_modes <= 4)
        pl = [p for p in w.pool["p"] if w.meta["p"][p].get("role") == "loss"]
        q = []
        if r.random() < 0.5:
            # sandwich: the same transposition before and after components that
            # sit right next to (or just on) its modes - the boundary cases of
            # the blocking analysis
            a = r.randrange(nu - 1)
            forced = None
            internal = sorted(w.pool["c"][cid]._internal_modes)
            if internal and small and r.random() < 0.6:
                # aim at the boundary: a grouped block that spans one of the
                # parent's ancillas and ends exactly on the swapped mode a
                upos = r.choice([i - j for j, i in enumerate(internal)])
                sid = self.pick(small)
                wdt = w.pool["c"][sid].input_modes
                lo_a, hi_a = max(upos, wdt - 1), min(upos + wdt - 2, nu - 2)
                if lo_a <= hi_a:
                    a = r.randint(lo_a, hi_a)
                    forced = {"op": "add", "parent": cid, "sub": sid,
                              "mode": a - wdt + 1, "group": True}
                    w.stats["intent:sandwich_forced"] += 1
            t = {"op": "mode_swaps", "c": cid, "swaps": [[a, a + 1], [a + 1, a]]}
            q.append(dict(t))
            if forced is not None:
                q.append(forced)
            tail = []
            for _ in range(r.randint(1, 3)):
                x = r.random()
                if x < 0.45 and small:
                    sid = self.pick(small)
                    wdt = w.pool["c"][sid].input_modes
                    # the block ends exactly on mode a / a+1 or starts there
                    opts = [m for m in (a - wdt + 1, a - wdt + 1, a + 2 - wdt,
                                        a, a + 1, a - wdt, a + 2)
                            if 0 <= m <= nu - wdt]
                    if opts:
                        q.append({"op": "add", "parent": cid, "sub": sid,
                                  "mode": r.choice(opts), "group": True})
                elif x < 0.65 and pl:
                    pid = self.pick(pl)
                    pp = w.pool["p"][pid]
                    zero_ok = (pp.min_bound is None or pp.min_bound <= 0) and \
                        (pp.max_bound is None or pp.max_bound >= 0)
                    if zero_ok and r.random() < 0.6:
                        # the loss is exactly 0 while the circuit is rewritten,
                        # and becomes non-zero afterwards
                        q.append({"op": "param_set", "p": pid, "value": 0})
                        hi = 0.9 if pp.max_bound is None else min(0.9, pp.max_bound)
                        if hi > 0:
                            tail.append({"op": "param_set", "p": pid,
                                         "value": round(r.uniform(0.05, hi), 3)
                                         if hi > 0.05 else hi})
                    q.append({"op": "loss", "c": cid,
                              "m": r.choice([a, a + 1, r.randrange(nu)]),
                              "l": {"p": pid}})
                elif x < 0.85:
                    others = [m for m in range(nu) if m not in (a, a + 1)]
                    q.append({"op": "ps", "c": cid,
                              "m": r.choice(others) if others else a,
                              "phi": round(r.uniform(0.1, 6), 3)})
                else:
                    b = r.randrange(nu - 1)
                    q.append({"op": "mode_swaps", "c": cid,
                              "swaps": [[b, b + 1], [b + 1, b]]})
            q.append(dict(t))
            q.append({"op": "compress", "c": cid})
            q.extend(tail)
            self.queue = q
            w.stats["intent:swap_sandwich"] += 1
            return self.next_queued()
        for _ in range(r.randint(3, 6)):
            x = r.random()
            if x < 0.12 and small:
                # a grouped block in the chain: its recorded mode range is what
                # stops swaps from being merged across it
                sid = self.pick(small)
                q.append({"op": "add", "parent": cid, "sub": sid,
                          "mode": r.randint(0, nu - w.pool["c"][sid].input_modes),
                          "group": True})
            elif x < 0.2 and pl:
                # a loss element whose value is a Parameter (possibly 0 now)
                q.append({"op": "loss", "c": cid, "m": r.randrange(nu),
                          "l": {"p": self.pick(pl)}})
            elif x < 0.6:
                a = r.randrange(nu - 1)
                if r.random() < 0.7:
                    sw = [[a, a + 1], [a + 1, a]]
                else:
                    ms = r.sample(range(nu), min(nu, 3))
                    sw = [[ms[i], ms[(i + 1) % len(ms)]] for i in range(len(ms))]
                q.append({"op": "mode_swaps", "c": cid, "swaps": sw})
            elif x < 0.8:
                q.append({"op": "ps", "c": cid, "m": r.randrange(nu),
                          "phi": round(r.uniform(0.1, 6), 3)})
            elif x < 0.9:
                a, b = r.sample(range(nu), 2)
                q.append({"op": "bs", "c": cid, "m1": a, "m2": b,
                          "r": round(r.uniform(0.1, 0.9), 3)})
            else:
                q.append({"op": "barrier", "c": cid})
        q.append({"op": "compress", "c": cid})
        self.queue = q
        w.stats["intent:swap_chain"] += 1
        return self.next_queued()

    def next_queued(self):
        if self.queue and not getattr(self, "_twinned", False):
            # a shallow copy taken just before the rewrite: the two circuits
            # share component objects while one of them is rewritten
            self._twinned = True
            for i, o in enumerate(self.queue):
                if o["op"] in ("compress", "remove_nonadj", "unpack") \
                        and self.rng.random() < 0.4:
                    self.queue.insert(i, {"op": "copy", "c": o["c"],
                                          "out": self.w.new_id("c")})
                    self.w.stats["intent:twin_before_rewrite"] += 1
                    break
        if not self.queue:
            self._twinned = False
        while self.queue:
            o = self.queue.pop(0)
            if o["op"] == "param_set":
                if self.w.has("p", o["p"]):
                    return o
                continue
            if o["op"] in ("new_circuit", "new_param"):
                return o
            if o["op"] == "plus":
                if self.w.has("c", o["a"]) and self.w.has("c", o["b"]):
                    return o
                continue
            if self.w.has("c", o.get("c", o.get("parent"))):
                return o
        return None

    def propose(self):
        r, w = self.rng, self.w
        o = self.next_queued()
        if o is not None:
            return o
        if r.random() < 0.12:
            return self.swap_chain()
        if r.random() < 0.03:
            return self.ancilla_sandwich()
        if r.random() < 0.03:
            return self.self_sum()
        if r.random() < 0.03 and self.cfg.get("max_params", 0) > 0:
            return self.parameter_sandwich()
        k = r.choice(["unpack", "compress", "remove_nonadj", "copy", "copy",
                      "copyf"])
        if k in ("copy", "copyf"):
            if len(self.own_circuits()) >= self.cfg["max_circuits"]:
                return None
            cid = self.pick(self.any_circuits(
                lambda cid, c: not w.meta["c"][cid].get("opaque")))
            if cid is None:
                return None
            o = {"op": "copy", "c": cid, "out": w.new_id("c")}
            if k == "copyf":
                o["freeze"] = True
            return o
        cid = self.pick(self.own_circuits())
        if cid is None:
            return None
        return {"op": k, "c": cid}


class Tuner(Client):
    name = "tuner"

    def __init__(self, *a):
        super().__init__(*a)
        self.poisoned: list = []

    def poison_value(self, role):
        r = self.rng
        if role == "r":
            return r.choice([1.5, -0.5, "x"])
        if role == "loss":
            return r.choice([1.5, -0.2, "x"])
        return "x"

    def propose(self):
        r, w, cfg = self.rng, self.w, self.cfg
        pids = list(w.pool["p"])
        # F-poison / heal
        if self.poisoned and r.random() < 0.45:
            pid = self.poisoned.pop(0)
            if w.has("p", pid):
                p = w.pool["p"][pid]
                v = self.valid_value(w.meta["p"][pid].get("role", "phi"),
                                     p.min_bound, p.max_bound)
                if v is not None:
                    w.stats["fault:heal"] += 1
                    return {"op": "param_set", "p": pid, "value": v,
                            "heal": True}
        bounded = [q for q in pids if w.pool["p"][q].has_bounds()]
        if bounded and cfg.get("faults") and r.random() < 0.03:
            # F-reject: a value the bounds cannot even be compared with
            w.stats["fault:reject_issued"] += 1
            return {"op": "param_set", "p": self.pick(bounded),
                    "value": r.choice([{"cx": [1.0, 1.0]}, {"cx": [0.5, 1e-3]},
                                       "x", None]),
                    "reject": True}
        if getattr(self, "freeze_next", None) is not None:
            cid, self.freeze_next = self.freeze_next, None
            if w.has("c", cid) and len(self.own_circuits()) < cfg["max_circuits"] + 2:
                # a frozen copy taken while a parameter holds an invalid value
                return {"op": "copy", "c": cid, "freeze": True,
                        "out": w.new_id("c")}
        if pids and cfg.get("faults") and r.random() < cfg.get("p_poison", 0.1):
            pid = self.pick(pids)
            w.stats["fault:poison"] += 1
            self.poisoned.append(pid)
            holders = [c for c, m in w.meta["c"].items()
                       if pid in m.get("params", ()) and not isinstance(c, str)]
            if holders and r.random() < 0.35:
                self.freeze_next = self.pick(holders)
            return {"op": "param_set", "p": pid, "poison": True,
                    "value": self.poison_value(w.meta["p"][pid].get("role", "phi"))}
        if len(pids) < cfg["max_params"] and (len(pids) < 3 or r.random() < 0.1):
            return self.new_param()
        if not pids:
            return None
        pid = self.pick(pids)
        p = w.pool["p"][pid]
        role = w.meta["p"][pid].get("role", "phi")
        k = r.random()
        lo, hi = p.min_bound, p.max_bound
        if k < 0.6:
            v = self.valid_value(role, lo, hi)
            if v is None:
                return None
            if r.random() < 0.06:
                v = {"np": "float64", "v": float(v)}
            return {"op": "param_set", "p": pid, "value": v}
        if k < 0.7 and isinstance(p.get(), (int, float)):
            v = p.get() - r.choice([0, 0.1, 0.5])
            return {"op": "param_min", "p": pid, "value": round(v, 4)}
        if k < 0.8 and isinstance(p.get(), (int, float)):
            v = p.get() + r.choice([0, 0.1, 0.5])
            return {"op": "param_max", "p": pid, "value": round(v, 4)}
        if k < 0.9:
            return self.pdict_op(pid)
        # bound removal
        return {"op": r.choice(["param_min", "param_max"]), "p": pid,
                "value": None}

    def valid_value(self, role, lo, hi):
        r = self.rng
        if role in ("r", "loss"):
            a, b = 0.0, 1.0
        else:
            a, b = -7.0, 7.0
        if lo is not None:
            a = max(a, lo)
        if hi is not None:
            b = min(b, hi)
        if a > b:
            return None
        if r.random() < 0.2:
            return r.choice([a, b])
        return round(r.uniform(a, b), 4)

    def new_param(self):
        r, w = self.rng, self.w
        # sometimes an exact twin of an existing parameter: a distinct object
        # with equal value, bounds and label
        if w.pool["p"] and r.random() < 0.2:
            src = self.pick(list(w.pool["p"]))
            p = w.pool["p"][src]
            v = p.get()
            if isinstance(v, (int, float)) and not isinstance(v, bool):
                o = {"op": "new_param", "value": v, "out": w.new_id("p"),
                     "role": w.meta["p"][src].get("role", "phi")}
                if p.has_bounds() and p.min_bound is not None and p.max_bound is not None:
                    o["bounds"] = [p.min_bound, p.max_bound]
                    if w.meta["p"][src].get("bounds_obj") is not None and r.random() < 0.5 \
                            and list(w.meta["p"][src]["bounds_obj"]) == o["bounds"]:
                        o["bounds_from"] = src   # same list object, reused
                if p.label is not None:
                    o["label"] = p.label
                return o
        role = r.choice(["r", "phi", "loss", "phi", "r"])
        v = self.valid_value(role, None, None)
        o = {"op": "new_param", "value": v, "out": w.new_id("p"), "role": role}
        x = r.random()
        if x < 0.3:
            o["bounds"] = [round(v - r.choice([0, 0.2, 1]), 4),
                           round(v + r.choice([0, 0.2, 1]), 4)]
        elif x < 0.55:
            # bounds with exact zeros / integers: boundary cases of the checks
            lo, hi = r.choice([(0, 1), (0, 0), (-1, 0), (0, 7), (-7, 0)])
            if role in ("r", "loss"):
                lo, hi = r.choice([(0, 1), (0, 0), (0, 0.5)])
            v = r.choice([lo, hi, round(r.uniform(lo, hi), 3)])
            o["value"] = v
            o["bounds"] = [lo, hi]
        if r.random() < 0.4:
            o["label"] = "p%d" % o["out"]
        return o

    def pdict_op(self, pid):
        r, w = self.rng, self.w
        pds = list(w.pool["pd"])
        if not pds:
            return {"op": "new_pdict", "out": w.new_id("pd")}
        pd = self.pick(pds)
        keys = w.meta["pd"][pd]["keys"]
        if not keys or r.random() < 0.4:
            return {"op": "pdict_put", "pd": pd, "key": "k%d" % pid, "p": pid}
        key = self.pick(sorted(keys))
        kp = keys[key]
        if not w.has("p", kp):
            return None
        p = w.pool["p"][kp]
        v = self.valid_value(w.meta["p"][kp].get("role", "phi"),
                             p.min_bound, p.max_bound)
        if v is None:
            return None
        return {"op": "pdict_set", "pd": pd, "key": key, "value": v}


class Bystander(Client):
    name = "bystander"

    def propose(self):
        r, w, cfg = self.rng, self.w, self.cfg
        small = self.any_circuits(
            lambda cid, c: c.n_modes <= cfg["emu_max_modes"]
            and c.input_modes >= 1
            and herald_photons(c) <= 2)
        k = r.choice(["simulate", "display", "display", "sample", "sample",
                      "reck", "read_u", "get_params", "prng", "convert",
                      "new_state", "tomo"])
        if k == "new_state":
            if not cfg.get("pool_states") or len(w.pool["st"]) >= 6 or not small:
                return None
            c = w.pool["c"][self.pick(small)]
            return {"op": "new_state", "s": self.state_for(c, 2),
                    "out": w.new_id("st")}
        if k == "tomo":
            if not cfg.get("tomo_bystander"):
                return None
            cands = self.any_circuits(
                lambda cid, c: c.input_modes in (2, 4) and c.n_modes <= 8
                and herald_photons(c) <= 2)
            if not cands:
                return None
            cid = self.pick(cands)
            kinds = ["state", "state", "li", "gf"]
            if w.pool["c"][cid].input_modes == 4:
                kinds = ["state", "state", "state", "li"]
            return {"op": "bystander_tomo", "c": cid, "kind": r.choice(kinds)}
        if k == "prng":
            return {"op": "prng", "kind": r.choice(["draw", "seed", "npseed"]),
                    "k": r.randrange(1, 50)}
        if k == "convert":
            if not cfg.get("convert", True):
                return None
            return self.convert()
        anyc = self.any_circuits()
        if not anyc:
            return None
        if k == "read_u":
            return {"op": "read_u", "c": self.pick(anyc),
                    "full": r.random() < 0.5}
        if k == "get_params":
            return {"op": "get_params", "c": self.pick(anyc)}
        if k == "display":
            cid = self.pick(anyc)
            typ = "mpl" if r.random() < cfg.get("p_mpl", 0.05) else "svg"
            o = {"op": "display", "c": cid, "type": typ,
                 "loss": r.random() < 0.5, "values": r.random() < 0.5}
            if r.random() < 0.25:
                c = w.pool["c"][cid]
                o["labels"] = ["m%d" % i for i in range(n_user(c))]
            return o
        if not small:
            return None
        cid = self.pick(small)
        c = w.pool["c"][cid]
        if k == "simulate":
            return {"op": "simulate", "c": cid,
                    "inputs": [self.state_arg(c, 2)]}
        if k == "sample":
            return {"op": "bystander_sample", "c": cid,
                    "state": self.state_arg(c, 2),
                    "kind": r.choice(["sampler", "quick", "analyzer"]),
                    "seed": r.randrange(1000), "n": 20}
        # reck on lossless circuits only (documented)
        return {"op": "reck_map_plain", "c": cid, "seed": r.randrange(1000)}

    def convert(self):
        r = self.rng
        nq = r.randint(1, 3)
        gates = []
        for _ in range(r.randint(1, 4)):
            if nq >= 2 and r.random() < 0.35:
                a, b = r.sample(range(nq), 2)
                gates.append([r.choice(["cx", "cz", "swap"]), a, b])
            elif r.random() < 0.25:
                gates.append([r.choice(["rx", "ry", "rz", "p"]),
                              round(r.uniform(0, 6), 3), r.randrange(nq)])
            else:
                gates.append([r.choice(["h", "x", "y", "z", "s", "sdg", "t",
                                        "tdg", "sx"]), r.randrange(nq)])
        return {"op": "convert", "nq": nq, "gates": gates,
                "allow_ps": r.random() < 0.5}


class Scheduler:
    """One PRNG decides who runs next and what they do."""

    def __init__(self, world, rng, cfg, clients: list) -> None:
        self.w, self.rng, self.cfg = world, rng, cfg
        self.clients = [(cls(world, rng, cfg), wt) for cls, wt in clients if wt > 0]
        self.total = sum(wt for _c, wt in self.clients)

    def pick_client(self):
        x = self.rng.random() * self.total
        for c, wt in self.clients:
            x -= wt
            if x < 0:
                return c
        return self.clients[-1][0]

    def next_op(self):
        for _ in range(20):
            c = self.pick_client()
            op = c.propose()
            if op is not None:
                op["cl"] = c.name
                return op
        return None

    def observe(self, op, out) -> None:
        for c, _wt in self.clients:
            c.observe(op, out)
