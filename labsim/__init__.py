"""LabSim - deterministic simulation with fault injection for Aegiq/lightworks.

See /verif/DESIGN.md.  Import order matters: `labsim.env` must be imported
before lightworks so that the environment (matplotlib backend, single thread)
is fixed before numpy and matplotlib are loaded.
"""
