"""Fault injection: F-reject catalogue (DESIGN Appendix B) and the Rejector client.

Each catalogue entry produces an operation whose arguments the API documents
as invalid.  The oracle is conditional: *if* the call raises, nothing may
change.  An entry that is accepted is an ordinary operation on its target
(counted as `reject_not_raised`).
"""
from __future__ import annotations

import numpy as np

import lightworks as lw

from .clients import Client, map_mode
from .ops import _tg_c, cmeta, n_user, op, val


# ---- special operations needed only by the catalogue -----------------------

@op("plus_scalar")
def _plus_scalar(w, o):
    a = w.get("c", o["a"])
    w.call(lambda: a + o.get("value", 3))


@op("set_n_modes", tg=_tg_c())
def _set_n_modes(w, o):
    c = w.get("c", o["c"])

    def f():
        c.n_modes = o["value"]
    w.call(f)


@op("add_noncircuit", tg=_tg_c("parent"))
def _add_noncircuit(w, o):
    p = w.get("c", o["parent"])
    w.call(p.add, o.get("value", 3), 0)


@op("bad_unitary")
def _bad_unitary(w, o):
    k = o["kind"]
    if k == "nonunitary":
        u = np.array([[1, 0.5], [0, 1]], dtype=complex)
        w.call(lw.Unitary, u)
    elif k == "nonsquare":
        w.call(lw.Unitary, np.ones((2, 3), dtype=complex))
    else:
        w.call(lw.Unitary, np.identity(2, dtype=complex), 5)


@op("bad_param")
def _bad_param(w, o):
    k = o["kind"]
    if k == "arity":
        w.call(lw.Parameter, 1.0, bounds=[0, 1, 2])
    elif k == "nonnumeric":
        w.call(lw.Parameter, "x", bounds=[0, 1])
    elif k == "nonlist":
        w.call(lw.Parameter, 1.0, bounds=3)
    elif k == "label":
        w.call(lw.Parameter, 1.0, label=3)
    else:
        w.call(lw.Parameter, 5.0, bounds=[0, 1])


@op("pdict_bad")
def _pdict_bad(w, o):
    pd = w.get("pd", o["pd"])
    k = o["kind"]
    if k == "new_nonparam":
        def f():
            pd["zz_new"] = 3
        w.call(f)
    elif k == "remove_missing":
        w.call(pd.remove, "zz_missing")
    else:
        w.call(lambda: pd["zz_missing"])


class Rejector(Client):
    """F-reject: issues calls the API documents as invalid."""

    name = "rejector"

    def propose(self):
        r, w = self.rng, self.w
        own = self.own_circuits()
        if not own:
            return None
        anc = [c for c in own if w.pool["c"][c]._internal_modes]
        held = [c for c in own if w.meta["c"][c].get("held")]
        x = r.random()
        if anc and x < 0.5:
            cid = self.pick(anc)
        elif held and x < 0.7:
            cid = self.pick(held)
        else:
            cid = self.pick(own)
        c = w.pool["c"][cid]
        entries = [self.e_bs, self.e_bs, self.e_ps, self.e_ps, self.e_loss,
                   self.e_barrier, self.e_swaps, self.e_herald, self.e_herald,
                   self.e_add, self.e_add, self.e_misc, self.e_param,
                   self.e_param]
        for _ in range(5):
            o = r.choice(entries)(cid, c)
            if o is not None:
                o["reject"] = True
                self.w.stats["fault:reject_issued"] += 1
                return o
        return None

    def bad_mode(self, c):
        r = self.rng
        nu = n_user(c)
        pids = list(self.w.pool["p"])
        opts = [-1, nu, nu + 3, True, 0.5]
        if pids:
            opts.append({"p": self.pick(pids)})
        # fits the full index range but not the user-visible one
        if c.n_modes > nu:
            opts += [nu, c.n_modes - 1]
        return r.choice(opts)

    def bad_loss(self):
        return self.rng.choice([-0.1, 1.1, "x", True])

    def e_bs(self, cid, c):
        r = self.rng
        nu = n_user(c)
        if nu < 2:
            return None
        m1, m2 = r.sample(range(nu), 2)
        k = r.choice(["equal", "m2", "m1", "r", "conv", "loss", "loss"])
        o = {"op": "bs", "c": cid, "m1": m1, "m2": m2}
        if k == "equal":
            o["m2"] = m1
        elif k == "m2":
            o["m2"] = self.bad_mode(c)
        elif k == "m1":
            o["m1"] = self.bad_mode(c)
        elif k == "r":
            o["r"] = r.choice([-0.1, 1.1])
        elif k == "conv":
            o["conv"] = "Q"
        else:
            o["loss"] = self.bad_loss()
        return o

    def e_ps(self, cid, c):
        r = self.rng
        nu = n_user(c)
        if nu < 1:
            return None
        o = {"op": "ps", "c": cid, "m": r.randrange(nu), "phi": 1.0}
        if r.random() < 0.5:
            o["m"] = self.bad_mode(c)
            if r.random() < 0.5:
                o["loss"] = 0.3
        else:
            o["loss"] = self.bad_loss()
        return o

    def e_loss(self, cid, c):
        r = self.rng
        nu = n_user(c)
        if nu < 1:
            return None
        if r.random() < 0.5:
            return {"op": "loss", "c": cid, "m": self.bad_mode(c), "l": 0.3}
        return {"op": "loss", "c": cid, "m": r.randrange(nu),
                "l": self.bad_loss()}

    def e_barrier(self, cid, c):
        nu = n_user(c)
        ms = list(range(min(nu, 2))) + [self.bad_mode(c)]
        return {"op": "barrier", "c": cid, "modes": ms}

    def e_swaps(self, cid, c):
        r = self.rng
        nu = n_user(c)
        if nu < 2:
            return None
        a, b = r.sample(range(nu), 2)
        k = r.choice(["incomplete", "range_key", "range_val"])
        if k == "incomplete":
            return {"op": "mode_swaps", "c": cid, "swaps": [[a, b]]}
        bad = r.choice([-1, nu, nu + 2])
        if k == "range_key":
            return {"op": "mode_swaps", "c": cid, "swaps": [[a, bad], [bad, a]]}
        return {"op": "mode_swaps", "c": cid, "swaps": [[bad, a], [a, bad]]}

    def e_herald(self, cid, c):
        r = self.rng
        nu = n_user(c)
        if nu < 1:
            return None
        hin, hout = c.heralds["input"], c.heralds["output"]
        used_i = [m for m in range(nu) if map_mode(c, m) in hin]
        used_o = [m for m in range(nu) if map_mode(c, m) in hout]
        free_i = [m for m in range(nu) if map_mode(c, m) not in hin]
        free_o = [m for m in range(nu) if map_mode(c, m) not in hout]
        k = r.choice(["n", "i", "o", "dup_i", "dup_o", "dup_o"])
        if k == "n":
            return {"op": "herald", "c": cid, "n": r.choice([2.5, True, "1"]),
                    "i": r.randrange(nu)}
        if k == "i":
            return {"op": "herald", "c": cid, "n": 0, "i": self.bad_mode(c)}
        if k == "o":
            if not free_i:
                return None
            return {"op": "herald", "c": cid, "n": 0, "i": r.choice(free_i),
                    "o": self.bad_mode(c)}
        if k == "dup_i":
            if not used_i:
                return None
            o = {"op": "herald", "c": cid, "n": 0, "i": r.choice(used_i)}
            if free_o:
                o["o"] = r.choice(free_o)
            return o
        # output already heralded, input free: a half-applied herald would show
        if not used_o or not free_i:
            return None
        return {"op": "herald", "c": cid, "n": r.choice([0, 1]),
                "i": r.choice(free_i), "o": r.choice(used_o)}

    def e_add(self, cid, c):
        r, w = self.rng, self.w
        nu = n_user(c)
        k = r.choice(["noncircuit", "mode", "oversize", "oversize", "self",
                      "name"])
        if k == "name":
            subs = self.any_circuits(
                lambda s, sc: s != cid and not w.meta["c"][s].get("opaque")
                and 1 <= sc.input_modes <= nu)
            hs = [s for s in subs if w.pool["c"][s].heralds["input"]]
            if not subs:
                return None
            sid = self.pick(hs) if hs and r.random() < 0.7 else self.pick(subs)
            return {"op": "add", "parent": cid, "sub": sid,
                    "mode": r.randint(0, nu - w.pool["c"][sid].input_modes),
                    "group": r.random() < 0.7, "name": r.choice([5, None, 2.5])}
        if k == "noncircuit":
            return {"op": "add_noncircuit", "parent": cid,
                    "value": r.choice([3, "x", None])}
        subs = self.any_circuits(
            lambda s, sc: s != cid and not w.meta["c"][s].get("opaque"))
        if not subs:
            return None
        if k == "mode":
            sid = self.pick(subs)
            return {"op": "add", "parent": cid, "sub": sid,
                    "mode": self.bad_mode(c),
                    "group": r.random() < 0.5}
        if k == "oversize":
            big = [s for s in subs if w.pool["c"][s].input_modes > 0]
            if not big:
                return None
            sid = self.pick(big)
            s = w.pool["c"][sid]
            # smallest offset at which it no longer fits the user-visible modes
            lo = nu - s.input_modes + 1
            if lo < 0:
                lo = 0
            hi = max(lo, nu - 1)
            return {"op": "add", "parent": cid, "sub": sid,
                    "mode": r.randint(lo, hi), "group": r.random() < 0.5}
        return {"op": "add", "parent": cid, "sub": cid, "mode": nu}

    def e_misc(self, cid, c):
        r, w = self.rng, self.w
        k = r.choice(["circuit", "plus_scalar", "plus_size", "plus_herald",
                      "n_modes", "unitary"])
        if k == "circuit":
            return {"op": "new_circuit", "n": r.choice([1.5, "a"]),
                    "out": w.new_id("c")}
        if k == "plus_scalar":
            return {"op": "plus_scalar", "a": cid, "value": r.choice([3, "x"])}
        if k == "plus_size":
            other = self.any_circuits(lambda s, sc: sc.n_modes != c.n_modes)
            if not other:
                return None
            return {"op": "plus", "a": cid, "b": self.pick(other),
                    "out": w.new_id("c")}
        if k == "plus_herald":
            other = self.any_circuits(
                lambda s, sc: sc.n_modes == c.n_modes
                and (sc.heralds["input"] or c.heralds["input"]))
            if not other:
                return None
            return {"op": "plus", "a": cid, "b": self.pick(other),
                    "out": w.new_id("c")}
        if k == "n_modes":
            return {"op": "set_n_modes", "c": cid, "value": c.n_modes + 1}
        return {"op": "bad_unitary",
                "kind": r.choice(["nonunitary", "nonsquare", "label"])}

    def e_param(self, cid, c):
        r, w = self.rng, self.w
        pids = list(w.pool["p"])
        k = r.choice(["create", "set", "set", "bound", "bound", "pdict"])
        if k == "create" or not pids:
            return {"op": "bad_param",
                    "kind": r.choice(["arity", "nonnumeric", "nonlist",
                                      "label", "outside"])}
        pid = self.pick(pids)
        p = w.pool["p"][pid]
        v = p.get()
        if k == "set":
            if not p.has_bounds():
                return None
            opts = ["x", True, {"cx": [1.0, 1.0]}, {"cx": [0.5, 1e-3]}]
            if p.min_bound is not None:
                opts.append(p.min_bound - 0.5)
            if p.max_bound is not None:
                opts.append(p.max_bound + 0.5)
            return {"op": "param_set", "p": pid, "value": r.choice(opts)}
        if k == "bound":
            if not isinstance(v, (int, float)) or isinstance(v, bool):
                return {"op": "param_min", "p": pid, "value": 0}
            kk = r.choice(["min_above", "max_below", "nonnumeric", "zero", "zero"])
            if kk == "zero":
                # a bound of exactly 0 on the wrong side of the value
                if v > 0:
                    return {"op": "param_max", "p": pid, "value": r.choice([0, 0.0])}
                if v < 0:
                    return {"op": "param_min", "p": pid, "value": r.choice([0, 0.0])}
                return None
            if kk == "min_above":
                return {"op": "param_min", "p": pid, "value": v + 0.5}
            if kk == "max_below":
                return {"op": "param_max", "p": pid, "value": v - 0.5}
            return {"op": r.choice(["param_min", "param_max"]), "p": pid,
                    "value": "x"}
        pds = list(w.pool["pd"])
        if not pds:
            return None
        pd = self.pick(pds)
        keys = w.meta["pd"][pd]["keys"]
        kk = r.choice(["overwrite", "new_nonparam", "remove_missing",
                       "get_missing", "out_of_bounds", "out_of_bounds"])
        if kk == "out_of_bounds":
            # a value outside the bounds of the addressed parameter, through
            # the dictionary
            for key in sorted(keys):
                kp = keys[key]
                if not w.has("p", kp):
                    continue
                q = w.pool["p"][kp]
                if q.max_bound is not None:
                    return {"op": "pdict_set", "pd": pd, "key": key,
                            "value": q.max_bound + r.choice([0.5, 1e-6])}
                if q.min_bound is not None:
                    return {"op": "pdict_set", "pd": pd, "key": key,
                            "value": q.min_bound - r.choice([0.5, 1e-6])}
            return None
        if kk == "overwrite":
            if not keys:
                return None
            return {"op": "pdict_set", "pd": pd, "key": self.pick(sorted(keys)),
                    "value": {"p": pid}}
        return {"op": "pdict_bad", "pd": pd, "kind": kk}
