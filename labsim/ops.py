"""Operation vocabulary: how each JSON operation is executed against the world.

Every operation is a plain dict.  Executing a list of operations is a pure
function of the list and the code under test: all random choices are explicit
fields.  A reference to an object that does not exist raises `Skip` (a
deterministic no-op), so any sub-list of a run is executable (minimisation).

`targets(world, op)` gives the set of world keys an operation is *allowed* to
change observably (frame condition, DESIGN 3.6 / Appendix A).
"""
from __future__ import annotations

import copy as _copy
from dataclasses import dataclass
from typing import Callable

import numpy as np

from .engine import LibRaise, Skip, World

import lightworks as lw
from lightworks import emulator as emu
from lightworks import interferometers as itf
from lightworks import qubit


@dataclass
class OpSpec:
    name: str
    fn: Callable
    tg: Callable | None


OPS: dict[str, OpSpec] = {}


def op(name: str, tg: Callable | None = None):
    def deco(fn):
        OPS[name] = OpSpec(name, fn, tg)
        return fn
    return deco


def targets(world: World, o: dict) -> set:
    spec = OPS.get(o["op"])
    if spec is None or spec.tg is None:
        return set()
    return spec.tg(world, o)


# --------------------------------------------------------------------------
# helpers


def val(w: World, v):
    """Decode a value: {"p": k} is the Parameter k, anything else is itself."""
    if isinstance(v, dict) and "p" in v:
        return w.get("p", v["p"])
    if isinstance(v, dict) and "np" in v:
        # a numpy scalar instead of a Python number (legal everywhere a number is)
        return getattr(np, v["np"])(v["v"])
    if isinstance(v, dict) and "cx" in v:
        return complex(*v["cx"])
    return v


def mk_state(w: World, x):
    """A state argument: {"st": k} is the pool State k (reused as an argument,
    frame-checked), a list builds a fresh State."""
    if isinstance(x, dict) and "st" in x:
        return w.get("st", x["st"])
    return lw.State(list(x))


def pids_in(*vals) -> set:
    return {v["p"] for v in vals if isinstance(v, dict) and "p" in v}


def plain(v):
    """The Python number a (possibly numpy-typed) constant stands for."""
    if isinstance(v, dict) and "np" in v:
        return v["v"]
    if isinstance(v, dict) and "cx" in v:
        return complex(*v["cx"])
    return v


def n_user(c) -> int:
    """User-visible mode count (generation helper; reads a private list)."""
    return c.n_modes - len(c._internal_modes)


def gen_unitary(n: int, seed: int, kind: str = "haar") -> np.ndarray:
    """Harness-side unitary generation (independent of lightworks helpers)."""
    rng = np.random.default_rng(seed)
    if kind == "identity":
        return np.identity(n, dtype=complex)
    if kind == "perm":
        return np.identity(n, dtype=complex)[rng.permutation(n)]
    if kind == "sparse":
        u = np.identity(n, dtype=complex)
        for _ in range(max(1, n - 1)):
            i, j = rng.choice(n, 2, replace=False)
            t = rng.uniform(0, 2 * np.pi)
            g = np.identity(n, dtype=complex)
            g[i, i] = np.cos(t)
            g[j, j] = np.cos(t)
            a = rng.uniform(0, 6)
            g[i, j] = -np.sin(t) * np.exp(1j * a)
            g[j, i] = np.sin(t) * np.exp(-1j * a)
            u = g @ u
        return u
    if kind == "near":
        # near-identity / near-permutation: couplings of 1e-12 .. 1e-6, the
        # "nearly zero entries" of the property text
        u = np.identity(n, dtype=complex)
        if rng.random() < 0.5:
            u = u[rng.permutation(n)]
        for _ in range(int(rng.integers(1, n + 1))):
            i, j = rng.choice(n, 2, replace=False)
            t = float(rng.choice([1e-12, 1e-10, 3e-10, 1e-9, 3e-9, 1e-8,
                                  3e-8, 1e-7, 1e-6]))
            a = rng.uniform(0, 6)
            g = np.identity(n, dtype=complex)
            g[i, i] = np.cos(t)
            g[j, j] = np.cos(t)
            g[i, j] = -np.sin(t) * np.exp(1j * a)
            g[j, i] = np.sin(t) * np.exp(-1j * a)
            u = g @ u
        return u
    if kind == "block" and n >= 3:
        k = int(rng.integers(1, n))
        u = np.zeros((n, n), dtype=complex)
        u[:k, :k] = gen_unitary(k, int(rng.integers(1 << 30)), "haar")
        u[k:, k:] = gen_unitary(n - k, int(rng.integers(1 << 30)), "haar")
        return u
    z = rng.normal(size=(n, n)) + 1j * rng.normal(size=(n, n))
    q, r = np.linalg.qr(z)
    d = np.diag(r)
    return q * (d / np.abs(d))


LIB_GATES = {
    "I": (qubit.I, 0), "H": (qubit.H, 0), "X": (qubit.X, 0), "Y": (qubit.Y, 0),
    "Z": (qubit.Z, 0), "S": (qubit.S, 0), "Sadj": (qubit.Sadj, 0),
    "T": (qubit.T, 0), "Tadj": (qubit.Tadj, 0), "SX": (qubit.SX, 0),
    "P": (qubit.P, 1), "Rx": (qubit.Rx, 1), "Ry": (qubit.Ry, 1),
    "Rz": (qubit.Rz, 1), "CZ": (qubit.CZ, 0), "CNOT": (qubit.CNOT, 1),
    "CZ_Heralded": (qubit.CZ_Heralded, 0),
    "CNOT_Heralded": (qubit.CNOT_Heralded, 1),
    "CCZ": (qubit.CCZ, 0), "CCNOT": (qubit.CCNOT, 1),
}


def shared_circuits() -> dict:
    """The module-level circuit instances every caller in the process shares."""
    from lightworks.qubit.converter import qiskit_convert as qc  # noqa: PLC0415
    from lightworks.tomography import mappings as mp  # noqa: PLC0415

    out = {}
    for k, g in qc.SINGLE_QUBIT_GATES_MAP.items():
        out["S:" + k] = g
    for k, g in mp.MEASUREMENT_MAPPING.items():
        out["M:" + k] = g
    for k, (_s, g) in mp.INPUT_MAPPING.items():
        out["I:" + k] = g
    out["R:r_transform"] = mp.r_transform
    out["R:y_measure"] = mp._y_measure
    return out


def cmeta(w: World, cid) -> dict:
    return w.m("c", cid)


def _spec_size(spec) -> tuple:
    n = nl = 0
    for s in spec:
        tn = type(s).__name__
        if tn == "Group":
            a, b = _spec_size(s.circuit_spec)
            n += a
            nl += b
        else:
            n += 1
            nl += tn == "Loss"
    return n, nl


def csize(w: World, cid) -> tuple:
    """(components, loss elements) of a pool circuit - harness bookkeeping that
    keeps generated circuits within the run's bounds."""
    m = cmeta(w, cid)
    if "ncomp" not in m:
        try:
            m["ncomp"], m["nloss"] = _spec_size(w.pool["c"][cid]._get_circuit_spec())
        except Exception:  # noqa: BLE001
            m["ncomp"], m["nloss"] = 0, 0
    return m["ncomp"], m["nloss"]


def grow(w: World, cid, ncomp: int, nloss: int = 0) -> None:
    a, b = csize(w, cid)
    m = cmeta(w, cid)
    m["ncomp"], m["nloss"] = a + ncomp, b + nloss


def log_append(w: World, cid, entry) -> None:
    cmeta(w, cid)["log"].append(entry)


def _tg_c(key="c"):
    return lambda w, o: {("c", o[key])}


def circuits_with_param(w: World, pid) -> set:
    return {("c", cid) for cid, m in w.meta["c"].items()
            if pid in m.get("params", ())}


# --------------------------------------------------------------------------
# circuits: construction


@op("new_circuit")
def _new_circuit(w, o):
    c = w.call(lw.Circuit, o["n"])
    w.put("c", o["out"], c, params=set(), log=[["circuit", o["n"]]],
          tomo_base=o.get("tomo_base"), tomo_part=o.get("tomo_part"))
    return c.n_modes


@op("new_unitary")
def _new_unitary(w, o):
    u = gen_unitary(o["n"], o["seed"], o.get("kind", "haar"))
    c = w.call(lw.Unitary, u, *( [o["label"]] if "label" in o else []))
    w.put("c", o["out"], c, params=set(),
          log=[["unitary", o["n"], o["seed"], o.get("kind", "haar")]])
    # the caller keeps its array (and may reuse the buffer later)
    w.extra.setdefault("caller_arrays", {})[o["out"]] = u
    return c.n_modes


@op("caller_mutate")
def _caller_mutate(w, o):
    """The caller changes, in place, a mutable object it handed to the library
    earlier (the matrix given to Unitary, a list given to PostSelection.add).
    No library call is made: nothing in the world may change."""
    if o["what"] == "array":
        arr = w.extra.get("caller_arrays", {}).get(o["c"])
        if arr is None:
            raise Skip("no such array")
        arr[:] = gen_unitary(arr.shape[0], o["seed"], "haar")
        w.stats["fault:caller_array_overwritten"] += 1
        return None
    lists = w.extra.get("caller_lists", {}).get(o["ps"])
    if not lists:
        raise Skip("no lists kept")
    modes, ns = lists[o.get("k", 0) % len(lists)]
    if o.get("which", "n") == "n":
        ns.append(o.get("value", 0))
    else:
        modes.append(o.get("value", 0))
    w.stats["fault:caller_list_mutated"] += 1
    return None


@op("lib_gate")
def _lib_gate(w, o):
    cls, _n = LIB_GATES[o["name"]]
    c = w.call(cls, *o.get("args", []))
    w.put("c", o["out"], c, params=set(),
          log=[["lib_gate", o["name"], list(o.get("args", []))]],
          tomo_part=o.get("tomo_part"))
    return c.n_modes


@op("bs", tg=_tg_c())
def _bs(w, o):
    c = w.get("c", o["c"])
    r, loss = val(w, o.get("r", 0.5)), val(w, o.get("loss", 0))
    kw = {}
    if "conv" in o:
        kw["convention"] = o["conv"]
    w.call(c.bs, val(w, o["m1"]), val(w, o.get("m2")), r, loss, **kw)
    cmeta(w, o["c"])["params"] |= pids_in(o.get("r"), o.get("loss"))
    log_append(w, o["c"], ["bs", o["m1"], o.get("m2"), o.get("r", 0.5),
                           o.get("loss", 0), o.get("conv", "Rx")])
    lossy = isinstance(o.get("loss"), dict) or (o.get("loss") or 0) > 0
    grow(w, o["c"], 3 if lossy else 1, 2 if lossy else 0)


@op("ps", tg=_tg_c())
def _ps(w, o):
    c = w.get("c", o["c"])
    phi, loss = val(w, o["phi"]), val(w, o.get("loss", 0))
    w.call(c.ps, val(w, o["m"]), phi, loss)
    cmeta(w, o["c"])["params"] |= pids_in(o["phi"], o.get("loss"))
    log_append(w, o["c"], ["ps", o["m"], o["phi"], o.get("loss", 0)])
    lossy = isinstance(o.get("loss"), dict) or (o.get("loss") or 0) > 0
    grow(w, o["c"], 2 if lossy else 1, 1 if lossy else 0)


@op("loss", tg=_tg_c())
def _loss(w, o):
    c = w.get("c", o["c"])
    w.call(c.loss, val(w, o["m"]), val(w, o["l"]))
    cmeta(w, o["c"])["params"] |= pids_in(o["l"])
    log_append(w, o["c"], ["loss", o["m"], o["l"]])
    grow(w, o["c"], 1, 1)


@op("barrier", tg=_tg_c())
def _barrier(w, o):
    c = w.get("c", o["c"])
    w.call(c.barrier, None if o.get("modes") is None else [val(w, m) for m in o["modes"]])
    log_append(w, o["c"], ["barrier", o.get("modes")])
    grow(w, o["c"], 1)


def _swapdict(d):
    # JSON has string keys only: swaps travel as list of pairs
    return {a: b for a, b in d}


@op("mode_swaps", tg=_tg_c())
def _mode_swaps(w, o):
    c = w.get("c", o["c"])
    w.call(c.mode_swaps, _swapdict(o["swaps"]))
    log_append(w, o["c"], ["mode_swaps", o["swaps"]])
    grow(w, o["c"], 1)


@op("herald", tg=_tg_c())
def _herald(w, o):
    c = w.get("c", o["c"])
    w.call(c.herald, o["n"], val(w, o["i"]), val(w, o.get("o")))
    log_append(w, o["c"], ["herald", o["n"], o["i"], o.get("o")])


@op("add", tg=_tg_c("parent"))
def _add(w, o):
    p = w.get("c", o["parent"])
    s = w.get("c", o["sub"])
    kw = {}
    if o.get("name") is not None or "name" in o:
        kw["name"] = o["name"]
    w.call(p.add, s, val(w, o.get("mode", 0)), o.get("group", False), **kw)
    pm, sm = cmeta(w, o["parent"]), cmeta(w, o["sub"])
    pm["params"] |= sm["params"]
    pm["depth"] = max(pm.get("depth", 0), sm.get("depth", 0) + 1)
    sa, sb = csize(w, o["sub"])
    grow(w, o["parent"], sa + 1, sb)
    log_append(w, o["parent"], ["add", _copy.deepcopy(cmeta(w, o["sub"])["log"]),
                                o.get("mode", 0), o.get("group", False)])


@op("plus")
def _plus(w, o):
    a = w.get("c", o["a"])
    b = w.get("c", o["b"])
    c = w.call(lambda: a + b)
    w.put("c", o["out"], c,
          params=set(cmeta(w, o["a"])["params"]) | set(cmeta(w, o["b"])["params"]),
          log=[["plus", _copy.deepcopy(cmeta(w, o["a"])["log"]),
                _copy.deepcopy(cmeta(w, o["b"])["log"])]])
    return c.n_modes


@op("copy")
def _copy_op(w, o):
    c = w.get("c", o["c"])
    fr = o.get("freeze", False)
    n = w.call(c.copy, fr)
    src_log = _copy.deepcopy(cmeta(w, o["c"])["log"])
    if fr:
        vals = {}
        for pid in cmeta(w, o["c"])["params"]:
            if w.has("p", pid):
                vals[pid] = w.get("p", pid).get()
        log = [["frozen", src_log, vals]]
        params = set()
    else:
        log = src_log
        params = set(cmeta(w, o["c"])["params"])
    w.put("c", o["out"], n, params=params, log=log,
          copied_from=o["c"], frozen=fr)
    return n.n_modes


@op("unpack", tg=_tg_c())
def _unpack(w, o):
    c = w.get("c", o["c"])
    w.call(c.unpack_groups)
    log_append(w, o["c"], ["unpack"])


@op("compress", tg=_tg_c())
def _compress(w, o):
    c = w.get("c", o["c"])
    w.call(c.compress_mode_swaps)
    log_append(w, o["c"], ["compress"])


@op("remove_nonadj", tg=_tg_c())
def _remove_nonadj(w, o):
    c = w.get("c", o["c"])
    w.call(c.remove_non_adjacent_bs)
    log_append(w, o["c"], ["remove_nonadj"])


@op("read_u")
def _read_u(w, o):
    c = w.get("c", o["c"])
    u = w.call(lambda: c.U_full if o.get("full", True) else c.U)
    return list(u.shape)


@op("get_params")
def _get_params(w, o):
    c = w.get("c", o["c"])
    ps = w.call(c.get_all_params)
    return len(ps)


# --------------------------------------------------------------------------
# parameters


def _tg_param(w, o):
    return {("p", o["p"])} | circuits_with_param(w, o["p"])


@op("new_param")
def _new_param(w, o):
    a = [o["value"]]
    kw = {}
    blist = None
    if o.get("bounds_from") is not None and w.has("p", o["bounds_from"]) \
            and w.m("p", o["bounds_from"]).get("bounds_obj") is not None:
        # the very same list object another Parameter was created with
        blist = w.m("p", o["bounds_from"])["bounds_obj"]
        kw["bounds"] = blist
    elif o.get("bounds") is not None:
        blist = list(o["bounds"])
        kw["bounds"] = blist
    if o.get("label") is not None:
        kw["label"] = o["label"]
    p = w.call(lw.Parameter, *a, **kw)
    w.put("p", o["out"], p, role=o.get("role", "phi"), bounds_obj=blist)


@op("param_set", tg=_tg_param)
def _param_set(w, o):
    p = w.get("p", o["p"])
    w.call(p.set, val(w, o["value"]))


@op("param_min", tg=_tg_param)
def _param_min(w, o):
    p = w.get("p", o["p"])

    def f():
        p.min_bound = o["value"]
    w.call(f)


@op("param_max", tg=_tg_param)
def _param_max(w, o):
    p = w.get("p", o["p"])

    def f():
        p.max_bound = o["value"]
    w.call(f)


@op("new_pdict")
def _new_pdict(w, o):
    pd = w.call(lw.ParameterDict)
    w.put("pd", o["out"], pd, keys={})


@op("pdict_put")
def _pdict_put(w, o):
    pd = w.get("pd", o["pd"])
    p = w.get("p", o["p"])

    def f():
        pd[o["key"]] = p
    w.call(f)
    w.m("pd", o["pd"])["keys"][o["key"]] = o["p"]


def _tg_pdict_set(w, o):
    if not w.has("pd", o["pd"]):
        return set()
    pid = w.m("pd", o["pd"])["keys"].get(o["key"])
    if pid is None:
        return set()
    return {("p", pid)} | circuits_with_param(w, pid)


@op("pdict_set", tg=_tg_pdict_set)
def _pdict_set(w, o):
    pd = w.get("pd", o["pd"])
    v = val(w, o["value"])

    def f():
        pd[o["key"]] = v
    w.call(f)


@op("pdict_remove")
def _pdict_remove(w, o):
    pd = w.get("pd", o["pd"])
    w.call(pd.remove, o["key"])
    w.m("pd", o["pd"])["keys"].pop(o["key"], None)


# --------------------------------------------------------------------------
# states


@op("new_state")
def _new_state(w, o):
    s = w.call(lw.State, list(o["s"]))
    w.put("st", o["out"], s)


# --------------------------------------------------------------------------
# bystanders: calls that must be free of side effects on their arguments


@op("simulate")
def _simulate(w, o):
    c = w.get("c", o["c"])
    ins = [mk_state(w, s) for s in o["inputs"]]
    outs = None if o.get("outputs") is None else [mk_state(w, s) for s in o["outputs"]]
    sim = w.call(emu.Simulator, c)
    res = w.call(sim.simulate, ins if len(ins) > 1 else ins[0], outs)
    return list(res.array.shape)


@op("display")
def _display(w, o):
    import matplotlib.pyplot as plt  # noqa: PLC0415

    c = w.get("c", o["c"])
    try:
        w.call(lw.Display, c, display_loss=o.get("loss", False),
               mode_labels=o.get("labels"),
               display_type=o.get("type", "svg"),
               show_parameter_values=o.get("values", False))
    finally:
        plt.close("all")


@op("bystander_sample")
def _bystander_sample(w, o):
    """A throw-away Sampler / QuickSampler / Analyzer on a pool circuit."""
    c = w.get("c", o["c"])
    st = mk_state(w, o["state"])
    kind = o.get("kind", "sampler")
    if kind == "sampler":
        s = w.call(emu.Sampler, c, st)
        w.call(lambda: s.probability_distribution)
        r = w.call(s.sample_N_inputs, o.get("n", 20), seed=o.get("seed", 1))
        return sorted((str(k), v) for k, v in r.items())
    if kind == "quick":
        s = w.call(emu.QuickSampler, c, st)
        d = w.call(lambda: s.probability_distribution)
        return len(d)
    a = w.call(emu.Analyzer, c)
    r = w.call(a.analyze, st)
    return list(r.array.shape)


@op("reck_map_plain")
def _reck_map_plain(w, o):
    c = w.get("c", o["c"])
    r = w.call(itf.Reck)
    m = w.call(r.map, c, o.get("seed", 1))
    if "out" in o:
        w.put("c", o["out"], m, params=set(), log=[["opaque"]], opaque=True)
    return m.n_modes


@op("convert")
def _convert(w, o):
    from qiskit import QuantumCircuit  # noqa: PLC0415

    qc = QuantumCircuit(o["nq"])
    for g in o["gates"]:
        getattr(qc, g[0])(*g[1:])
    c, ps = w.call(qubit.qiskit_converter, qc, o.get("allow_ps", False))
    if "out" in o:
        w.put("c", o["out"], c, params=set(), log=[["opaque"]], opaque=True)
    return c.n_modes


@op("prng")
def _prng(w, o):
    """Another caller in the process consumes or reseeds the shared streams."""
    from . import seams  # noqa: PLC0415

    seams.perturb(w, o["kind"], o.get("k", 0))


class LibraryRaised(LibRaise):
    pass


# --------------------------------------------------------------------------
# emulator objects: sources, detectors, post-selection


@op("new_source")
def _new_source(w, o):
    s = w.call(emu.Source, purity=o.get("purity", 1),
               brightness=o.get("brightness", 1),
               indistinguishability=o.get("indist", 1),
               probability_threshold=o.get("thr", 0))
    w.put("src", o["out"], s)


@op("src_set")
def _src_set(w, o):
    s = w.get("src", o["src"])
    w.call(setattr, s, o["attr"], o["value"])


@op("new_detector")
def _new_detector(w, o):
    d = w.call(emu.Detector, efficiency=o.get("eff", 1),
               p_dark=o.get("p_dark", 0),
               photon_counting=o.get("pnr", True))
    w.put("det", o["out"], d)


@op("det_set")
def _det_set(w, o):
    d = w.get("det", o["det"])
    w.call(setattr, d, o["attr"], o["value"])


PREDICATES = {
    "max1": lambda s: max(s) <= 1 if len(s) else True,
    "even": lambda s: sum(s) % 2 == 0,
    "m0_lt2": lambda s: (s[0] < 2) if len(s) else True,
    "some": lambda s: sum(s) >= 1,
    "m0_zero": lambda s: (s[0] == 0) if len(s) else True,
    "all": lambda s: True,
}


class PredicateFault(Exception):
    """Injected failure of a user predicate (F-callback)."""


def make_predicate(w, name: str, ctl: dict):
    base = PREDICATES[name]

    def predicate(state):
        if w.extra.get("fresh_mode"):
            return base(state)   # oracle-side evaluation: never faulted
        ctl["calls"] += 1
        if ctl["fail_at"] is not None and ctl["calls"] >= ctl["fail_at"]:
            ctl["fail_at"] = None
            ctl["fired"] += 1
            w.stats["fault:predicate_raised"] += 1
            w.extra["pred_fault_fired"] = True
            raise PredicateFault("injected predicate failure")
        return base(state)
    return predicate


@op("new_postsel")
def _new_postsel(w, o):
    if o["kind"] == "rules":
        ps = w.call(lw.PostSelection, o.get("multi", False))
        for modes, ns in o.get("rules", []):
            if o.get("as_list"):
                ml, nl = list(modes), list(ns)
                w.extra.setdefault("caller_lists", {}).setdefault(
                    o["out"], []).append((ml, nl))
                w.call(ps.add, ml, nl)
            else:
                w.call(ps.add, tuple(modes), tuple(ns))
        w.put("ps", o["out"], ps, pkind="rules",
              rules=[(tuple(m), tuple(n)) for m, n in o.get("rules", [])])
    else:
        ctl = {"calls": 0, "fail_at": None, "fired": 0}
        fn = make_predicate(w, o["pred"], ctl)
        w.put("ps", o["out"], fn, pkind="pred", ctl=ctl, pred=o["pred"])


@op("ps_add")
def _ps_add(w, o):
    ps = w.get("ps", o["ps"])
    if w.m("ps", o["ps"])["pkind"] != "rules":
        raise Skip("not a rule set")
    m, n = o["modes"], o["n"]
    if o.get("as_list") and isinstance(m, list) and isinstance(n, list):
        # list arguments, kept (and possibly changed later) by the caller
        ml, nl = list(m), list(n)
        w.call(ps.add, ml, nl)
        w.extra.setdefault("caller_lists", {}).setdefault(
            o["ps"], []).append((ml, nl))
    else:
        w.call(ps.add, tuple(m) if isinstance(m, list) else m,
               tuple(n) if isinstance(n, list) else n)
    # only an *accepted* rule is recorded by the harness
    w.m("ps", o["ps"])["rules"].append(
        (tuple(m) if isinstance(m, list) else (m,),
         tuple(n) if isinstance(n, list) else (n,)))


@op("pred_fault")
def _pred_fault(w, o):
    """Arm the predicate to raise at its k-th evaluation from now."""
    w.get("ps", o["ps"])
    m = w.m("ps", o["ps"])
    if m["pkind"] != "pred":
        raise Skip("not a predicate")
    m["ctl"]["fail_at"] = m["ctl"]["calls"] + o.get("k", 1)
    w.stats["fault:predicate_armed"] += 1


def _psobj(w, ref):
    return None if ref is None else w.get("ps", ref)


# --------------------------------------------------------------------------
# long-lived consumers


def _hold(w, cid):
    if cid is not None and w.has("c", cid):
        w.m("c", cid)["held"] = True


@op("new_sampler")
def _new_sampler(w, o):
    c = w.get("c", o["c"])
    st = mk_state(w, o["state"])
    src = None if o.get("src") is None else w.get("src", o["src"])
    det = None if o.get("det") is None else w.get("det", o["det"])
    kw = {}
    if src is not None:
        kw["source"] = src
    if det is not None:
        kw["detector"] = det
    if o.get("backend") is not None:
        kw["backend"] = o["backend"]
    s = w.call(emu.Sampler, c, st, **kw)   # omitted arguments stay omitted
    w.put("sam", o["out"], s, circuit=o["c"], src=o.get("src"),
          det=o.get("det"), state="new")
    _hold(w, o["c"])


@op("new_quick")
def _new_quick(w, o):
    c = w.get("c", o["c"])
    st = mk_state(w, o["state"])
    ps = _psobj(w, o.get("ps"))
    kw = {}
    if "pnr" in o:
        kw["photon_counting"] = o["pnr"]
    if ps is not None:
        kw["post_select"] = ps
    q = w.call(emu.QuickSampler, c, st, **kw)
    w.put("qs", o["out"], q, circuit=o["c"], ps=o.get("ps"), state="new")
    _hold(w, o["c"])


@op("new_analyzer")
def _new_analyzer(w, o):
    c = w.get("c", o["c"])
    a = w.call(emu.Analyzer, c)
    w.put("an", o["out"], a, circuit=o["c"], ps=None, state="new")
    _hold(w, o["c"])


@op("cons_set")
def _cons_set(w, o):
    kind = o["kind"]
    s = w.get(kind, o["s"])
    attr = o["attr"]
    meta = w.m(kind, o["s"])
    if attr == "circuit":
        v = w.get("c", o["ref"]) if o.get("ref") is not None else o.get("value")
    elif attr == "input_state":
        if isinstance(o.get("value"), dict) and "st" in o["value"]:
            v = w.get("st", o["value"]["st"])
        else:
            v = w.call(lw.State, list(o["value"])) if isinstance(o.get("value"), list) else o.get("value")
    elif attr == "source":
        v = w.get("src", o["ref"]) if o.get("ref") is not None else o.get("value")
    elif attr == "detector":
        v = w.get("det", o["ref"]) if o.get("ref") is not None else o.get("value")
    elif attr in ("post_select", "post_selection"):
        v = w.get("ps", o["ref"]) if o.get("ref") is not None else o.get("value")
    else:
        v = o.get("value")
    w.call(setattr, s, attr, v)
    if attr == "circuit" and o.get("ref") is not None:
        meta["circuit"] = o["ref"]
        _hold(w, o["ref"])
    if attr in ("post_select", "post_selection"):
        meta["ps"] = o.get("ref")
    if attr == "source":
        meta["src"] = o.get("ref")
    if attr == "detector":
        meta["det"] = o.get("ref")


@op("cons_component_set")
def _cons_component_set(w, o):
    """In-place edit of the source / detector a consumer carries, reached
    through the consumer (also when it is the consumer's own default one)."""
    s = w.get(o["kind"], o["s"])
    comp = w.call(getattr, s, o["comp"])
    w.call(setattr, comp, o["attr"], o["value"])


def dist_summary(d: dict) -> list:
    return sorted((str(k), round(float(v), 12)) for k, v in d.items())


def result_summary(r) -> list:
    return sorted((str(k), int(v)) for k, v in r.items())


@op("read_dist")
def _read_dist(w, o):
    s = w.get(o["kind"], o["s"])
    m = w.m(o["kind"], o["s"])
    w.extra["last_result"] = None
    try:
        d = w.call(lambda: s.probability_distribution)
    except LibRaise:
        m["state"] = "read_failed"
        raise
    m["state"] = "read"
    w.extra["last_result"] = dict(d)
    return len(d)


@op("sample")
def _sample(w, o):
    from . import seams  # noqa: PLC0415

    s = w.get(o["kind"], o["s"])
    seams.set_stream(w, o["stream"])
    if o.get("script") is not None:
        seams.script_draws(w, o["script"])
    w.extra["last_result"] = None
    try:
        st = w.call(s.sample)
    finally:
        seams.script_draws(w, [])
    w.extra["last_result"] = st
    w.m(o["kind"], o["s"])["state"] = "sampled"
    return str(st)


def _perturb_between(w, o):
    """F-prng between the two halves of a 'same seed twice' pair."""
    from . import seams  # noqa: PLC0415

    for kind, k in o["twice"]:
        if kind == "other_sample":
            other = w.pool["sam"].get(k)
            if other is not None:
                try:
                    other.sample_N_inputs(30, seed=7)
                    other.sample()
                except Exception:  # noqa: BLE001
                    pass
                w.stats["fault:prng_other_sampler"] += 1
        else:
            seams.perturb(w, kind, k)


def _sample_n(w, o, method):
    s = w.get("sam", o["s"])
    ps = _psobj(w, o.get("ps"))
    w.extra["last_result"] = None
    w.extra["second_result"] = None
    w.extra["pred_fault_fired"] = False
    kw = {"post_select": ps, "min_detection": o.get("md", 0)}
    if "seed" in o:
        kw["seed"] = val(w, o["seed"])
    r = w.call(getattr(s, method), o["n"], **kw)
    if o.get("twice") is not None:
        _perturb_between(w, o)
        w.extra["second_result"] = w.call(getattr(s, method), o["n"], **kw)
    w.extra["last_result"] = r
    w.m("sam", o["s"])["state"] = "sampled"
    return result_summary(r)


@op("sample_n_inputs")
def _sample_n_inputs(w, o):
    return _sample_n(w, o, "sample_N_inputs")


@op("sample_n_outputs")
def _sample_n_outputs(w, o):
    return _sample_n(w, o, "sample_N_outputs")


@op("quick_n_outputs")
def _quick_n_outputs(w, o):
    q = w.get("qs", o["s"])
    w.extra["last_result"] = None
    w.extra["second_result"] = None
    w.extra["pred_fault_fired"] = False
    kw = {}
    if "seed" in o:
        kw["seed"] = val(w, o["seed"])
    r = w.call(q.sample_N_outputs, o["n"], **kw)
    if o.get("twice") is not None:
        _perturb_between(w, o)
        w.extra["second_result"] = w.call(q.sample_N_outputs, o["n"], **kw)
    w.extra["last_result"] = r
    w.m("qs", o["s"])["state"] = "sampled"
    return result_summary(r)


@op("analyze")
def _analyze(w, o):
    a = w.get("an", o["s"])
    ins = [lw.State(list(s)) for s in o["inputs"]]
    exp = None
    if o.get("expected") is not None:
        exp = {lw.State(list(k)): [lw.State(list(x)) for x in v]
               for k, v in o["expected"]}
    w.extra["last_result"] = None
    w.extra["pred_fault_fired"] = False
    r = w.call(a.analyze, ins if len(ins) > 1 else ins[0], exp)
    w.extra["last_result"] = r
    w.m("an", o["s"])["state"] = "analyzed"
    return [list(r.array.shape), round(float(r.performance), 12)]


@op("sample_many")
def _sample_many(w, o):
    """n calls of sample() driven by the S1 stream from a given state."""
    from collections import Counter  # noqa: PLC0415

    from . import seams  # noqa: PLC0415

    s = w.get(o["kind"], o["s"])
    seams.set_stream(w, o["stream"])
    if o.get("script") is not None:
        seams.script_draws(w, o["script"])
    w.extra["last_result"] = None
    cnt: Counter = Counter()
    try:
        for _ in range(o["n"]):
            cnt[w.call(s.sample)] += 1
    finally:
        seams.script_draws(w, [])
    w.extra["last_result"] = cnt
    w.m(o["kind"], o["s"])["state"] = "sampled"
    return sorted((str(k), v) for k, v in cnt.items())
