"""C15: simulated QPU (the tomography `experiment` callback), operations,
client and monitor for state tomography."""
from __future__ import annotations

import itertools
import random

import numpy as np

import lightworks as lw
from lightworks.tomography import StateTomography

from . import seams
from .clients import Client
from .engine import Skip, obs_circuit, obs_diff, obs_equal
from .monitors import Monitor
from .ops import op
from .refmodel import fock_amp


class QPUFault(Exception):
    """Injected failure of the experiment callback (F-callback)."""


def dual_rail_outputs(n: int):
    for bits in itertools.product([0, 1], repeat=n):
        st = []
        for b in bits:
            st += [1, 0] if b == 0 else [0, 1]
        yield bits, st


def full_io(circ_obs, x, y):
    """Full-length input/output occupation lists from (n_modes, heralds, U)."""
    n_modes, _im, hin, hout, u = circ_obs
    big = u.shape[0]
    xin, yout = [0] * big, [0] * big
    fi = [m for m in range(n_modes) if m not in hin]
    fo = [m for m in range(n_modes) if m not in hout]
    for m, k in hin.items():
        xin[m] = k
    for m, k in hout.items():
        yout[m] = k
    for m, k in zip(fi, x, strict=True):
        xin[m] = k
    for m, k in zip(fo, y, strict=True):
        yout[m] = k
    return xin, yout


def dual_rail_amplitudes(circ_obs, n: int, x=None) -> np.ndarray:
    """psi[b] = heralded amplitude |0..0>_L -> |b>_L (vacuum on loss modes),
    computed with the harness's own permanent from the public U_full/heralds."""
    x = [1, 0] * n if x is None else list(x)
    psi = np.zeros(2 ** n, dtype=complex)
    for i, (_bits, y) in enumerate(dual_rail_outputs(n)):
        xin, yout = full_io(circ_obs, x, y)
        psi[i] = fock_amp(circ_obs[4], xin, yout)
    return psi


def make_qpu(w, tid, n: int):
    ctl = w.m("tomo", tid)

    def qpu(circuits):
        ctl["attempts"] += 1
        ctl["handed"] = []
        if ctl.get("fail_on") is not None and ctl["attempts"] >= ctl["fail_on"]:
            ctl["fail_on"] = None
            w.stats["fault:qpu_raised"] += 1
            ctl["last_failed"] = True
            raise QPUFault("injected QPU failure")
        ctl["last_failed"] = False
        rng = random.Random(ctl.get("order_seed", 0) + ctl["attempts"])
        # record what was handed over, before touching it
        for c in circuits:
            ctl["handed"].append(obs_circuit(c))
        # the device may rewrite the circuits it was given
        rw = ctl.get("rewrite")
        if rw:
            for c in circuits:
                getattr(c, rw)()
            w.stats["fault:qpu_rewrote_circuits"] += 1
        # process jobs in its own internal order
        order = list(range(len(circuits)))
        rng.shuffle(order)
        results = [None] * len(circuits)
        for i in order:
            o = obs_circuit(circuits[i])
            if isinstance(o[4], tuple):
                raise QPUFault("handed circuit does not compile")
            psi = dual_rail_amplitudes(o, n)
            dt = ctl.get("state_dtype")
            items = [(lw.State(y if dt is None else
                               list(np.array(y, dtype=getattr(np, dt)))),
                      float(abs(a) ** 2))
                     for (_b, y), a in zip(dual_rail_outputs(n), psi, strict=True)]
            # rounding noise is cut *relative to the accepted total*: the
            # reconstructed state is conditional on success, so an absolute
            # cut-off would be amplified by 1 / (success probability)
            tot = sum(p for _s, p in items)
            cut = 1e-12 * tot
            if ctl.get("zeros"):
                # a full table: every dual-rail outcome in lexicographic order,
                # impossible ones with frequency exactly zero
                items = [(s, p if p > cut else 0.0) for s, p in items]
            else:
                # a device never reports outcomes at the level of rounding noise
                items = [(s, p) for s, p in items if p > cut]
                rng.shuffle(items)
            results[i] = dict(items)
        # the container the device hands back: a fresh list, a tuple, or one
        # list it keeps and refills on every call
        cont = ctl.get("container", "list")
        if cont == "tuple":
            ret = tuple(results)
        elif cont == "memo":
            ret = ctl.setdefault("memo_list", [])
            ret[:] = results
        else:
            ret = results
        ctl["returned"], ctl["returned_len"] = ret, len(ret)
        return ret
    return qpu


@op("bystander_tomo")
def _bystander_tomo(w, o):
    """A throw-away tomography run on a pool circuit (must not alter it, nor
    the shared measurement / input-preparation gate instances)."""
    from lightworks.tomography import GateFidelity, LIProcessTomography  # noqa: PLC0415

    c = w.get("c", o["c"])
    n = c.input_modes // 2

    def experiment(circuits, inputs=None):
        out = []
        for i, cc in enumerate(circuits):
            ob = obs_circuit(cc)
            if isinstance(ob[4], tuple):
                raise QPUFault("handed circuit does not compile")
            x = None if inputs is None else list(inputs[i])
            psi = dual_rail_amplitudes(ob, n, x)
            d = {lw.State(y): float(abs(a) ** 2) + 1e-9
                 for (_b, y), a in zip(dual_rail_outputs(n), psi, strict=True)}
            out.append(d)
        return out
    kind = o.get("kind", "state")
    if kind == "state":
        t = w.call(StateTomography, n, c, experiment)
        w.call(t.process)
    elif kind == "li":
        t = w.call(LIProcessTomography, n, c, experiment)
        w.call(t.process)
    else:
        t = w.call(GateFidelity, n, c, experiment)
        w.call(t.process, np.identity(2 ** n, dtype=complex))
    return n


@op("tomo_new")
def _tomo_new(w, o):
    c = w.get("c", o["c"])
    w.meta["tomo"][o["out"]] = {"attempts": 0, "fail_on": None,
                                "rewrite": o.get("rewrite"),
                                "zeros": o.get("zeros", False),
                                "order_seed": o.get("order_seed", 0),
                                "state_dtype": o.get("state_dtype"),
                                "container": o.get("container", "list"),
                                "circuit": o["c"], "n": o["n"], "handed": []}
    try:
        qpu = make_qpu(w, o["out"], o["n"])
        t = w.call(StateTomography, o["n"], c, qpu)
    except BaseException:
        del w.meta["tomo"][o["out"]]
        raise
    meta = w.meta["tomo"][o["out"]]
    w.pool["tomo"][o["out"]] = t
    if o["out"] >= w.nid["tomo"]:
        w.nid["tomo"] = o["out"] + 1
    meta["state"] = "new"
    w.m("c", o["c"])["held"] = True


@op("qpu_fault")
def _qpu_fault(w, o):
    w.get("tomo", o["t"])
    m = w.m("tomo", o["t"])
    m["fail_on"] = m["attempts"] + o.get("k", 1)
    w.stats["fault:qpu_armed"] += 1


@op("qpu_profile")
def _qpu_profile(w, o):
    w.get("tomo", o["t"])
    m = w.m("tomo", o["t"])
    m["rewrite"] = o.get("rewrite")
    m["zeros"] = o.get("zeros", False)
    m["order_seed"] = o.get("order_seed", 0)
    m["state_dtype"] = o.get("state_dtype")
    m["container"] = o.get("container", "list")


@op("tomo_process")
def _tomo_process(w, o):
    t = w.get("tomo", o["t"])
    m = w.m("tomo", o["t"])
    if "perm" in o:
        seams.set_perm(w, o["perm"])
    w.extra["last_result"] = None
    m["handed"] = []
    try:
        rho = w.call(t.process)
    except Exception:
        m["state"] = "failed"
        raise
    m["state"] = "processed"
    w.extra["last_result"] = rho
    return [round(float(x), 9) for x in np.real(np.diag(rho))]


class _Impostor:
    """A callable that is not a function: `experiment = _Impostor()` is refused
    (TypeError).  If the refusal takes effect anyway, it answers every circuit
    with the same made-up result."""

    def __init__(self, n):
        self.n = n

    def __call__(self, circuits, *a):
        return [{lw.State([1, 0] * self.n): 1.0} for _ in circuits]


@op("tomo_bad_experiment")
def _tomo_bad_experiment(w, o):
    """F-reject on the tomography object: an assignment the setter refuses."""
    t = w.get("tomo", o["t"])
    n = w.m("tomo", o["t"])["n"]
    w.stats["fault:reject_issued"] += 1
    bad = _Impostor(n) if o.get("how", "object") == "object" else 17
    w.call(setattr, t, "experiment", bad)


@op("tomo_rho")
def _tomo_rho(w, o):
    t = w.get("tomo", o["t"])
    rho = w.call(lambda: t.rho)
    w.extra["last_result"] = rho
    return [round(float(x), 9) for x in np.real(np.diag(rho))]


# --------------------------------------------------------------------------


class Tomographer(Client):
    name = "tomographer"

    def propose(self):
        r, w, cfg = self.rng, self.w, self.cfg
        mine = list(w.pool["tomo"])
        if len(mine) < 1 or (len(mine) < 3 and r.random() < 0.15):
            return self.create()
        # young base circuits are grown first: trivial states test nothing
        young = [b for b in self.bases()
                 if len(w.meta["c"][b]["log"]) < w.meta["c"][b].setdefault(
                     "grow_to", r.randint(2, 7))]
        if young and r.random() < 0.7:
            o = self.base_edit(self.pick(young))
            if o is not None:
                return o
        tid = self.pick(mine)
        k = r.choice(["process", "process", "process", "fault", "profile",
                      "rho", "edit_base", "edit_base", "edit_base", "reject"])
        if k == "process":
            return {"op": "tomo_process", "t": tid, "perm": r.randrange(1 << 30)}
        if k == "fault":
            if not cfg.get("faults"):
                return None
            return {"op": "qpu_fault", "t": tid, "k": 1}
        if k == "profile":
            return {"op": "qpu_profile", "t": tid,
                    "rewrite": r.choice([None, "unpack_groups",
                                         "compress_mode_swaps",
                                         "remove_non_adjacent_bs"]),
                    "zeros": r.random() < 0.3,
                    "order_seed": r.randrange(1 << 20),
                    "state_dtype": r.choice([None, None, "int64", "uint8",
                                             "uint16"]),
                    "container": r.choice(["list", "list", "tuple", "memo"])}
        if k == "rho":
            return {"op": "tomo_rho", "t": tid}
        if k == "reject":
            if not cfg.get("faults"):
                return None
            return {"op": "tomo_bad_experiment", "t": tid,
                    "how": r.choice(["object", "object", "int"])}
        # the user keeps editing the base circuit between runs (legal)
        return self.base_edit(w.meta["tomo"][tid]["circuit"])

    def bases(self, n=None):
        w = self.w
        return self.own_circuits(
            lambda cid, c: w.meta["c"][cid].get("tomo_base")
            and (n is None or c.input_modes == 2 * n))

    def create(self):
        r, w, cfg = self.rng, self.w, self.cfg
        b = self.bases()
        if not b or (len(b) < 3 and r.random() < 0.4):
            n = r.choice(cfg.get("tomo_qubits", [1, 2, 2]))
            return {"op": "new_circuit", "n": 2 * n, "out": w.new_id("c"),
                    "tomo_base": True}
        cid = self.pick(b)
        c = w.pool["c"][cid]
        return {"op": "tomo_new", "c": cid, "n": c.input_modes // 2,
                "out": w.new_id("tomo"),
                "rewrite": r.choice([None, None, "unpack_groups",
                                     "compress_mode_swaps",
                                     "remove_non_adjacent_bs"]),
                "zeros": r.random() < 0.3,
                "order_seed": r.randrange(1 << 20),
                "state_dtype": r.choice([None, None, None, "int64", "uint8",
                                         "uint16"]),
                "container": r.choice(["list", "list", "tuple", "memo"])}

    def base_edit(self, cid):
        """Grow a base circuit: keeps 2n visible modes."""
        r, w = self.rng, self.w
        if not w.has("c", cid) or isinstance(cid, str):
            return None
        c = w.pool["c"][cid]
        nq = c.input_modes // 2
        from .ops import csize  # noqa: PLC0415
        if c.n_modes > 12 or csize(w, cid)[0] > 40 or csize(w, cid)[1] > 5:
            return None
        k = r.choice(["gate1", "gate1", "gate1", "rot", "rot", "ent", "ent",
                      "anc", "anc", "prim", "lossy", "rewrite", "swap",
                      "swap"])
        q = r.randrange(nq)
        if k == "swap":
            # rail / qubit permutations on the visible modes; two in a row are
            # what a device-side compress_mode_swaps merges
            vis = 2 * nq
            ms = r.sample(range(vis), r.randint(2, min(vis, 4)))
            tg = list(ms)
            r.shuffle(tg)
            sw = {"op": "mode_swaps", "c": cid,
                  "swaps": [[a, b] for a, b in zip(ms, tg)]}
            if r.random() < 0.5:
                ms2 = r.sample(range(vis), 2)
                self.pending = [{"op": "mode_swaps", "c": cid,
                                 "swaps": [[ms2[0], ms2[1]], [ms2[1], ms2[0]]]}]
            return sw
        if k == "rewrite":
            # in-place rewrites that keep the mode numbering (unpack_groups
            # turns private ancillas into ordinary heralded modes, after which
            # "2n visible modes" is no longer what the tomography addresses)
            return {"op": r.choice(["compress", "remove_nonadj"]), "c": cid}
        if k == "gate1":
            g = self.pick([x for x in w.pool["c"] if isinstance(x, str)
                           and x.startswith(("S:", "M:"))])
            if g is None:
                return None
            return {"op": "add", "parent": cid, "sub": g, "mode": 2 * q}
        subs2 = self.any_circuits(
            lambda s, sc: s != cid and not isinstance(s, str)
            and w.meta["c"][s].get("tomo_part") == 2)
        subs4 = self.any_circuits(
            lambda s, sc: s != cid and not isinstance(s, str)
            and w.meta["c"][s].get("tomo_part") == 4)
        if k == "rot":
            if subs2 and r.random() < 0.7:
                return {"op": "add", "parent": cid, "sub": self.pick(subs2),
                        "mode": 2 * q, "group": r.random() < 0.3}
            return {"op": "lib_gate", "name": r.choice(["Rx", "Ry", "Rz", "P"]),
                    "args": [round(r.uniform(0, 6.3), 4)],
                    "out": w.new_id("c"), "tomo_part": 2}
        if k == "ent":
            if nq < 2:
                return None
            if subs4 and r.random() < 0.7:
                return {"op": "add", "parent": cid, "sub": self.pick(subs4),
                        "mode": 2 * r.randrange(nq - 1)}
            name = r.choice(["CZ", "CNOT", "CZ_Heralded", "CNOT_Heralded"])
            args = [r.randint(0, 1)] if name.startswith("CNOT") else []
            return {"op": "lib_gate", "name": name, "args": args,
                    "out": w.new_id("c"), "tomo_part": 4}
        if k == "anc":
            # custom heralded sub-circuit whose ancilla sits between the rails
            parts = self.any_circuits(
                lambda s, sc: w.meta["c"][s].get("tomo_part") == "anc"
                and sc.input_modes == 2)
            if parts and r.random() < 0.6:
                return {"op": "add", "parent": cid, "sub": self.pick(parts),
                        "mode": 2 * q, "group": r.random() < 0.4}
            return self.anc_intent()
        if k == "prim":
            a = 2 * q
            kk = r.choice(["bs", "ps", "ps"])
            if kk == "bs":
                return {"op": "bs", "c": cid, "m1": a, "m2": a + 1,
                        "r": round(r.random(), 3),
                        "conv": r.choice(["Rx", "H"])}
            return {"op": "ps", "c": cid, "m": a + r.randint(0, 1),
                    "phi": round(r.uniform(0, 6.3), 4)}
        return {"op": "ps", "c": cid, "m": 2 * q + r.randint(0, 1),
                "phi": round(r.uniform(0, 6.3), 4),
                "loss": r.choice([0.1, 0.3])}

    def anc_intent(self):
        """Queue: a 3-mode circuit, mixing, herald on the middle mode."""
        r, w = self.rng, self.w
        out = w.new_id("c")
        self.pending = [
            {"op": "bs", "c": out, "m1": 0, "m2": 1, "r": round(r.uniform(0.2, 0.9), 3)},
            {"op": "bs", "c": out, "m1": 1, "m2": 2, "r": round(r.uniform(0.2, 0.9), 3)},
            {"op": "ps", "c": out, "m": 1, "phi": round(r.uniform(0, 6), 3)},
            {"op": "bs", "c": out, "m1": 0, "m2": 2, "r": round(r.uniform(0.2, 0.9), 3),
             "conv": "H"},
            {"op": "herald", "c": out, "n": r.choice([0, 0, 1]), "i": 1},
        ]
        return {"op": "new_circuit", "n": 3, "out": out, "tomo_part": "anc"}

    pending: list = []

    def next_pending(self):
        while self.pending:
            o = self.pending.pop(0)
            if self.w.has("c", o["c"]):
                return o
        return None


class TomoClient(Tomographer):
    def propose(self):
        p = self.next_pending()
        if p is not None:
            return p
        return super().propose()


# --------------------------------------------------------------------------


PAULI = {
    "X": np.array([[0, 1], [1, 0]], dtype=complex),
    "Y": np.array([[0, -1j], [1j, 0]], dtype=complex),
    "Z": np.array([[1, 0], [0, -1]], dtype=complex),
}


def classify_axis(b: np.ndarray):
    """B^dagger Z B = +-P for P in {X,Y,Z}?  Returns the axis or None."""
    m = b.conj().T @ PAULI["Z"] @ b
    for ax, p in PAULI.items():
        if np.allclose(m, p, atol=1e-8) or np.allclose(m, -p, atol=1e-8):
            return ax
    return None


class TomoMonitor(Monitor):
    prop = "C15"
    name = "tomography"
    needs_snapshot = True

    def __init__(self, world):
        super().__init__(world)
        self.last_rho: dict = {}
        self.attempts_before = None

    def pre(self, op, snap):
        self.attempts_before = None
        if op["op"] == "tomo_process" and self.w.has("tomo", op["t"]):
            self.attempts_before = self.w.meta["tomo"][op["t"]]["attempts"]

    def post(self, op, out, before, after):
        w = self.w
        k = op["op"]
        vs = []
        if k == "tomo_process" and w.has("tomo", op["t"]):
            ctl = w.meta["tomo"][op["t"]]
            if ctl.get("returned") is not None and not ctl.get("last_failed") \
                    and len(ctl["returned"]) != ctl.get("returned_len"):
                return [self.v({"kind": "callback_result_mutated"},
                               f"the sequence the callback returned had "
                               f"{ctl['returned_len']} results, now "
                               f"{len(ctl['returned'])}")]
        if k == "tomo_bad_experiment" and out["status"] == "ok":
            return [self.v({"kind": "invalid_experiment_accepted"},
                           "a non-function experiment was assigned without error")]
        if k == "tomo_process" and w.has("tomo", op["t"]) \
                and self.attempts_before is not None:
            called = w.meta["tomo"][op["t"]]["attempts"] - self.attempts_before
            if (called != 1) if out["status"] == "ok" else (called > 1):
                return [self.v({"kind": "configured_callback_calls",
                                "calls": called},
                               f"process() called the configured experiment "
                               f"{called} times")]
        # (5) frame condition during tomography operations
        if k in ("tomo_process", "tomo_new", "tomo_rho"):
            for key, old in before.items():
                new = after.get(key)
                if new is None or key[0] != "c":
                    continue
                if not obs_equal(old, new):
                    t = op.get("t")
                    base = w.meta["tomo"].get(t, {}).get("circuit") if t is not None else op.get("c")
                    role = ("base_circuit" if key[1] == base else
                            "shared_gate" if isinstance(key[1], str) else "other")
                    vs.append(self.v({"kind": "tomography_changed_circuit",
                                      "role": role, "what": obs_diff(old, new),
                                      "op": k},
                                     f"{key} ({role}) changed during {k}"))
                    return vs[:1]
        if k != "tomo_process" or not w.has("tomo", op["t"]):
            return []
        t = w.pool["tomo"][op["t"]]
        meta = w.meta["tomo"][op["t"]]
        n = meta["n"]
        base_obs = after.get(("c", meta["circuit"]))
        if base_obs is None or isinstance(base_obs[4], tuple):
            return []
        if out["status"] == "raised":
            if meta.get("last_failed"):
                w.probe("qpu_failure_propagated")
                # (4) rho is the previous value or not available
                try:
                    rho = t.rho
                    prev = self.last_rho.get(op["t"])
                    if prev is None or not np.array_equal(rho, prev):
                        return [self.v({"kind": "rho_after_failed_attempt"},
                                       "rho changed although the experiment "
                                       "callback failed")]
                except AttributeError:
                    pass
                meta["retry_pending"] = True
                return []
            psi = dual_rail_amplitudes(base_obs, n)
            if np.linalg.norm(psi) ** 2 < 1e-6:
                w.probe("unpreparable_state")
                return []
            return [self.v({"kind": "process_raised", "exc": out["exc"]},
                           f"process() raised {out['exc']}: {out.get('msg')}")]
        rho = w.extra.get("last_result")
        # what a later failed attempt must leave in place, whether or not the
        # checks below apply to this state
        prev = self.last_rho.get(op["t"])
        self.last_rho[op["t"]] = np.array(rho)
        bd_prev_ok = meta.get("rho_checked_last", False)
        meta["rho_checked_last"] = False
        handed = meta.get("handed", [])
        # (1) protocol
        if len(handed) != 3 ** n:
            return [self.v({"kind": "wrong_number_of_circuits"},
                           f"callback received {len(handed)} circuits for "
                           f"{n} qubits")]
        bu = base_obs[4]
        hin = base_obs[2]
        rails = [m for m in range(base_obs[0]) if m not in hin]
        settings = []
        for hi, ho in enumerate(handed):
            if isinstance(ho[4], tuple):
                return [self.v({"kind": "handed_circuit_does_not_compile"},
                               f"circuit {hi}")]
            hu = ho[4]
            if ho[:4] != base_obs[:4] or hu.shape != bu.shape:
                return [self.v({"kind": "handed_circuit_shape",
                                "what": obs_diff(base_obs, ho) if ho[:4] != base_obs[:4] else "U_full"},
                               f"circuit {hi}: {ho[:4]} vs base {base_obs[:4]}")]
            other = [m for m in range(bu.shape[0]) if m not in rails]
            if other and not np.allclose(hu[other, :], bu[other, :], atol=1e-9):
                return [self.v({"kind": "handed_circuit_touches_other_modes"},
                               f"circuit {hi}: rows outside the qubit rails differ")]
            axes = []
            for j in range(n):
                rj = rails[2 * j: 2 * j + 2]
                a = bu[rj, :]
                if np.linalg.matrix_rank(a, tol=1e-9) < 2:
                    axes.append("?")
                    w.probe("dependent_rail_rows")
                    continue
                bj = hu[rj, :] @ np.linalg.pinv(a)
                if not np.allclose(bj @ a, hu[rj, :], atol=1e-9):
                    return [self.v({"kind": "handed_circuit_not_base_plus_basis_change"},
                                   f"circuit {hi}, qubit {j}: rail rows are "
                                   "not a 2x2 mix of the base circuit's")]
                ax = classify_axis(bj)
                if ax is None:
                    return [self.v({"kind": "basis_change_not_pauli_axis"},
                                   f"circuit {hi}, qubit {j}")]
                axes.append(ax)
            settings.append(tuple(axes))
        w.probe("protocol_checked")
        full = [s for s in settings if "?" not in s]
        if len(full) == len(settings):
            want = set(itertools.product("XYZ", repeat=n))
            if set(settings) != want or len(set(settings)) != len(settings):
                return [self.v({"kind": "settings_not_each_once"},
                               f"settings handed: {sorted(settings)}")]
        # (2) reconstruction
        psi = dual_rail_amplitudes(base_obs, n)
        nrm = np.linalg.norm(psi) ** 2
        if nrm < 1e-6:
            w.probe("unpreparable_state")
            return []
        ref = np.outer(psi, psi.conj()) / nrm
        w.probe("rho_checked")
        w.stats["c15:qubits_%d" % n] += 1
        if meta.pop("retry_pending", False):
            w.probe("retry_after_qpu_failure")
        if rho.shape != ref.shape:
            return [self.v({"kind": "rho_shape"}, f"{rho.shape}")]
        if not np.allclose(rho, rho.conj().T, atol=1e-9):
            return [self.v({"kind": "rho_not_hermitian"}, "")]
        if not np.all(np.isfinite(rho)):
            return [self.v({"kind": "rho_not_finite"}, "rho contains nan or inf")]
        if abs(np.trace(rho) - 1) > 1e-9:
            return [self.v({"kind": "rho_trace"}, f"trace {np.trace(rho)}")]
        d = float(np.max(np.abs(rho - ref)))
        if d > 1e-9:
            return [self.v({"kind": "rho_wrong", "qubits": n,
                            "rewrite": str(meta.get("rewrite"))},
                           f"max |rho - psi psi^dagger| = {d:.3g}")]
        try:
            f = t.fidelity(ref)
        except Exception as e:  # noqa: BLE001
            return [self.v({"kind": "fidelity_raised"}, repr(e))]
        if not abs(f - 1) <= 1e-6:
            return [self.v({"kind": "fidelity_not_one"}, f"fidelity {f}")]
        # (3) identical under every permutation: compare with the previous
        # process() of the same object if the base circuit did not change
        meta["rho_checked_last"] = True
        bd = meta.get("base_digest")
        from .engine import obs_digest  # noqa: PLC0415
        nd = obs_digest(base_obs)
        meta["base_digest"] = nd
        if prev is not None and bd == nd and bd_prev_ok:
            w.probe("same_state_other_order")
            if float(np.max(np.abs(prev - rho))) > 1e-12:
                return [self.v({"kind": "rho_depends_on_order"},
                               "two process() calls on the same base circuit "
                               "under different set orders differ by "
                               f"{float(np.max(np.abs(prev - rho))):.3g}")]
        return []
