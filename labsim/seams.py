"""Seams owned by the simulator (DESIGN 3.4).  No change to /repo is needed:
module-level names are rebound from the harness process and restored at exit.

S1  process-global stdlib PRNG stream: the *real* global generator is used (so
    the sharing between every Sampler / QuickSampler / Detector in the process
    is exactly production's), its state is set by operations; the names
    `random` / `seed` imported into sampler, quick_sampler and detector are
    wrapped so that (a) scripted edge draws can be injected, (b) `seed(None)`
    (OS entropy in production) becomes a logged, deterministic value, and (c)
    draws are counted.
S3  hash-order iteration: a class `SimSet` is injected as the module-global
    name `set` into the four modules that iterate a set; its iteration order
    is a function of the run's permutation seed.
"""
from __future__ import annotations

import hashlib
import random as _random

import numpy as np

S1_MODULES = {
    "sampler": ("lightworks.emulator.simulation.sampler", ["random"]),
    "quick": ("lightworks.emulator.simulation.quick_sampler", ["random"]),
    "detector": ("lightworks.emulator.components.detector", ["random", "seed"]),
}
S3_MODULES = [
    "lightworks.tomography.utils",
    "lightworks.emulator.results.simulation_result",
    "lightworks.emulator.simulation.probability_distribution",
    "lightworks.qubit.converter.qiskit_convert",
]


class SimSet:
    """A set whose iteration order is decided by the simulator."""

    perm_seed = 0
    iterations = 0

    def __init__(self, it=()):
        self._d = {}
        for x in it:
            self._d[x] = None

    def add(self, x):
        self._d[x] = None

    def discard(self, x):
        self._d.pop(x, None)

    def remove(self, x):
        del self._d[x]

    def update(self, it):
        for x in it:
            self._d[x] = None

    def __contains__(self, x):
        return x in self._d

    def __len__(self):
        return len(self._d)

    def __bool__(self):
        return bool(self._d)

    def _order(self):
        ps = SimSet.perm_seed

        def key(x):
            return hashlib.sha256(f"{ps}|{x!s}".encode()).digest()
        return sorted(self._d, key=key)

    def __iter__(self):
        SimSet.iterations += 1
        return iter(self._order())

    def __or__(self, other):
        s = SimSet(self._d)
        s.update(other)
        return s

    __ror__ = __or__

    def __and__(self, other):
        return SimSet(x for x in self._d if x in other)

    def __sub__(self, other):
        return SimSet(x for x in self._d if x not in other)

    def __eq__(self, other):
        if isinstance(other, (SimSet, set, frozenset)):
            return len(self) == len(other) and all(x in other for x in self._d)
        return NotImplemented

    def __hash__(self):  # pragma: no cover
        raise TypeError("unhashable type: 'SimSet'")

    def __repr__(self):
        return "SimSet(" + repr(self._order()) + ")"


def _import(name):
    import importlib  # noqa: PLC0415

    return importlib.import_module(name)


def install(world, cfg) -> None:
    st = world.extra.setdefault("seams", {})
    st["saved"] = []
    st["script"] = []          # scripted uniform draws, consumed first
    st["draws"] = 0
    st["entropy"] = cfg.get("entropy_seed", 12345)
    st["entropy_n"] = 0
    st["s1_available"] = True
    # S1
    real_random = _random.random
    real_seed = _random.seed

    def sim_random():
        st["draws"] += 1
        if st["script"]:
            world.stats["fault:scripted_draw"] += 1
            return st["script"].pop(0)
        return real_random()

    def sim_seed(a=None, *rest):
        if a is None:
            st["entropy_n"] += 1
            a = int.from_bytes(hashlib.sha256(
                f"{st['entropy']}/{st['entropy_n']}".encode()).digest()[:6], "big")
            world.stats["seam:seed_none_mapped"] += 1
        real_seed(a)

    for _k, (modname, names) in S1_MODULES.items():
        mod = _import(modname)
        for n in names:
            cur = getattr(mod, n, None)
            want = real_random if n == "random" else real_seed
            if cur is not want:
                st["s1_available"] = False
                continue
            st["saved"].append((mod, n, cur))
            setattr(mod, n, sim_random if n == "random" else sim_seed)
    # tuning knob (DESIGN 3.1): chosen at run start, never changed mid-run; the
    # run lives in its own forked child, so nothing leaks into the next one
    if cfg.get("prob_threshold") is not None:
        import lightworks as _lw  # noqa: PLC0415
        st["saved_threshold"] = _lw.settings.sampler_probability_threshold
        _lw.settings.sampler_probability_threshold = cfg["prob_threshold"]
    # the run's own initial stream state
    real_seed(cfg.get("stream_seed", 0))
    np.random.seed(cfg.get("stream_seed", 0) % (2**32))
    # S3
    import os  # noqa: PLC0415
    if cfg.get("simset", False) and not os.environ.get("LABSIM_NOSHIM"):
        SimSet.perm_seed = cfg.get("perm_seed", 0)
        SimSet.iterations = 0
        for modname in S3_MODULES:
            mod = _import(modname)
            had = "set" in mod.__dict__
            st["saved"].append((mod, "set", mod.__dict__.get("set") if had else _MISSING))
            mod.__dict__["set"] = SimSet
    world.stats["seam:s1_available"] = int(st["s1_available"])


_MISSING = object()


def remove(world) -> None:
    st = world.extra.get("seams", {})
    if "saved_threshold" in st:
        import lightworks as _lw  # noqa: PLC0415
        _lw.settings.sampler_probability_threshold = st.pop("saved_threshold")
    for mod, n, old in reversed(st.get("saved", [])):
        if old is _MISSING:
            mod.__dict__.pop(n, None)
        else:
            setattr(mod, n, old)
    st["saved"] = []


def perturb(world, kind: str, k: int) -> None:
    """F-prng: another client consumes / reseeds the shared streams."""
    world.stats["fault:prng_" + kind] += 1
    if kind == "draw":
        for _ in range(k):
            _random.random()
    elif kind == "seed":
        _random.seed(k)
    elif kind == "npseed":
        np.random.seed(k % (2**32))
    elif kind == "npdraw":
        np.random.random(k)


def script_draws(world, values) -> None:
    world.extra["seams"]["script"] = list(values)


def set_stream(world, seed) -> None:
    _random.seed(seed)


def set_perm(world, perm_seed: int) -> None:
    SimSet.perm_seed = perm_seed
    world.stats["fault:order"] += 1
