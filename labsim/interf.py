"""C14: Reck mapping; noise only through the error model; seeds.
Operations, Mapper client and monitor."""
from __future__ import annotations

import math

import numpy as np

from lightworks import interferometers as itf
from lightworks.interferometers import dists

from .clients import Client
from .engine import Skip, obs_circuit, obs_digest
from .monitors import Monitor
from .ops import op

TWO_PI = 2 * math.pi


# ---- scripted generator (F-prng for the resampling loop / edge draws) -------

class ScriptedGen:
    """Stands in for numpy's Generator inside one Distribution object."""

    def __init__(self, real, normals=(), uniforms=(), stats=None):
        self.real = real
        self.normals = list(normals)
        self.uniforms = list(uniforms)
        self.n_normal = 0
        self.n_uniform = 0
        self.stats = stats

    def normal(self, loc=0.0, scale=1.0):
        self.n_normal += 1
        if self.normals:
            if self.stats is not None:
                self.stats["fault:scripted_normal"] += 1
            return self.normals.pop(0)
        return self.real.normal(loc, scale)

    def random(self):
        self.n_uniform += 1
        if self.uniforms:
            if self.stats is not None:
                self.stats["fault:scripted_uniform"] += 1
            return self.uniforms.pop(0)
        return self.real.random()

    def __getattr__(self, name):
        return getattr(self.real, name)


class _RandomShim:
    """Replaces the name `random` (numpy.random) inside a dists module while a
    scripted seed call is made through the public set_random_seed()."""

    def __init__(self, real_mod, normals, uniforms, stats):
        self.real_mod, self.normals, self.uniforms, self.stats = real_mod, normals, uniforms, stats
        self.made = None

    def default_rng(self, seed=None):
        self.made = ScriptedGen(self.real_mod.default_rng(seed), self.normals,
                                self.uniforms, self.stats)
        return self.made

    def __getattr__(self, name):
        return getattr(self.real_mod, name)


def _dist_module(d):
    import importlib  # noqa: PLC0415
    return importlib.import_module(type(d).__module__)


def dist_desc(w, did) -> tuple:
    m = w.m("dist", did)
    return (m["dkind"], *m["args"])


# ---- operations -------------------------------------------------------------

@op("new_dist")
def _new_dist(w, o):
    k, a = o["dkind"], o["args"]
    if k == "constant":
        d = w.call(dists.Constant, *a)
    elif k == "gaussian":
        d = w.call(dists.Gaussian, *a)
    else:
        d = w.call(dists.TopHat, *a)
    if k != "constant":
        w.call(d.set_random_seed, o.get("seed", 0))
    w.put("dist", o["out"], d, dkind=k, args=list(a), role=o.get("role"))


@op("dist_seed")
def _dist_seed(w, o):
    d = w.get("dist", o["d"])
    if w.m("dist", o["d"])["dkind"] == "constant":
        raise Skip("constant")
    if o.get("normals") is None and o.get("uniforms") is None:
        w.call(d.set_random_seed, o["seed"])
        return
    mod = _dist_module(d)
    real = mod.random
    shim = _RandomShim(real, o.get("normals") or [], o.get("uniforms") or [],
                       w.stats)
    mod.random = shim
    try:
        w.call(d.set_random_seed, o["seed"])
    finally:
        mod.random = real
    w.m("dist", o["d"])["scripted"] = shim.made


@op("dist_draw")
def _dist_draw(w, o):
    d = w.get("dist", o["d"])
    vals = [float(w.call(d.value)) for _ in range(o.get("n", 1))]
    w.extra["last_result"] = vals
    return [round(v, 12) for v in vals]


@op("new_errmodel")
def _new_errmodel(w, o):
    em = w.call(itf.ErrorModel)
    w.put("em", o["out"], em, bs_reflectivity=None, loss=None, phase_offset=None)


@op("em_set")
def _em_set(w, o):
    em = w.get("em", o["em"])
    v = w.get("dist", o["d"]) if o.get("d") is not None else o.get("value")
    w.call(setattr, em, o["attr"], v)
    if o.get("d") is not None:
        w.m("em", o["em"])[o["attr"]] = o["d"]


@op("new_reck")
def _new_reck(w, o):
    em = None if o.get("em") is None else w.get("em", o["em"])
    if o.get("raw"):
        r = w.call(itf.Reck, o.get("value"))
    elif em is None and not o.get("explicit_none"):
        r = w.call(itf.Reck)          # argument omitted, as most callers do
    else:
        r = w.call(itf.Reck, em)
    w.put("reck", o["out"], r, em=o.get("em"))


@op("reck_em_set")
def _reck_em_set(w, o):
    """In-place configuration of the error model a Reck object carries."""
    r = w.get("reck", o["r"])
    d = w.get("dist", o["d"])
    w.call(setattr, r.error_model, o["attr"], d)
    m = w.m("reck", o["r"])
    if m.get("em") is not None and w.has("em", m["em"]):
        w.m("em", m["em"])[o["attr"]] = o["d"]
    else:
        m.setdefault("own", {})[o["attr"]] = o["d"]


@op("reck_map")
def _reck_map(w, o):
    r = w.get("reck", o["r"])
    c = w.get("c", o["c"])
    w.extra["last_result"] = None
    from .ops import val  # noqa: PLC0415
    m = w.call(r.map, c, val(w, o["seed"]))
    w.extra["last_result"] = m
    if "out" in o:
        w.put("c", o["out"], m, params=set(), log=[["opaque"]], opaque=True,
              mapped=True)
    return [m.n_modes, obs_digest(obs_circuit(m))]


# ---- client -----------------------------------------------------------------

class Mapper(Client):
    name = "mapper"

    def lossless(self):
        w, cfg = self.w, self.cfg

        def ok(cid, c):
            if c.n_modes > cfg.get("reck_max_modes", 6) or c.n_modes < 1:
                return False
            if w.meta["c"][cid].get("mapped"):
                return False
            try:
                # lossless: the n x n matrix is unitary (loss elements of value
                # exactly zero add loss modes to U_full but lose nothing)
                u = c.U
                return bool(np.allclose(u @ u.conj().T, np.identity(c.n_modes),
                                        atol=1e-10))
            except Exception:  # noqa: BLE001
                return False
        return self.any_circuits(ok)

    def propose(self):
        r, w, cfg = self.rng, self.w, self.cfg
        if not w.pool["reck"] or (len(w.pool["reck"]) < 3 and r.random() < 0.1):
            ems = list(w.pool["em"])
            o = {"op": "new_reck", "out": w.new_id("reck")}
            if ems and r.random() < 0.75:
                o["em"] = self.pick(ems)
            elif r.random() < 0.3:
                o["explicit_none"] = True
            return o
        k = r.choice(["map", "map", "map", "map", "new_dist", "new_em",
                      "em_set", "em_set", "draw", "reseed", "script", "remap",
                      "remap", "reject"])
        bare = [e for e, m in w.meta["em"].items()
                if any(m.get(a) is None for a in ("bs_reflectivity", "loss", "phase_offset"))]
        used = {w.meta["reck"][x].get("em") for x in w.pool["reck"]}
        if r.random() < 0.45 and (not w.pool["em"] or not (used - {None})):
            k = "new_em" if len(w.pool["em"]) < 3 and not w.pool["em"] else k
            if w.pool["em"] and len(w.pool["reck"]) < 4:
                return {"op": "new_reck", "out": w.new_id("reck"),
                        "em": self.pick(list(w.pool["em"]))}
        elif bare and r.random() < 0.4:
            k = "em_set"
        if k == "map":
            cs = self.lossless()
            if not cs:
                return None
            o = {"op": "reck_map", "r": self.pick(list(w.pool["reck"])),
                 "c": self.pick(cs), "seed": self.seed_value()}
            if r.random() < 0.08:
                # an integer seed that is not a builtin int
                o["seed"] = {"np": r.choice(["int64", "int32"]),
                             "v": o["seed"] % (2 ** 31 - 1)}
            if len(self.own_circuits()) < cfg["max_circuits"] and r.random() < 0.2:
                o["out"] = w.new_id("c")
            self.last_map = dict(o)
            self.last_map.pop("out", None)
            return o
        if k == "remap" and r.random() < 0.5:
            t = self.twin_remap()
            if t is not None:
                return t
        if k == "remap":
            # same seed, same configuration, after whatever happened in between
            lm = getattr(self, "last_map", None)
            if lm is None or not w.has("reck", lm["r"]) or not w.has("c", lm["c"]):
                return None
            return dict(lm)
        if k == "new_dist":
            if len(w.pool["dist"]) >= 6:
                return None
            return self.new_dist()
        if k == "new_em":
            if len(w.pool["em"]) >= 3:
                return None
            return {"op": "new_errmodel", "out": w.new_id("em")}
        if k == "em_set" and w.pool["dist"] and r.random() < 0.3:
            # configure the model a Reck object carries, in place
            attr = r.choice(["bs_reflectivity", "loss", "phase_offset"])
            ds = [d for d in w.pool["dist"] if w.meta["dist"][d].get("role") == attr]
            if ds:
                return {"op": "reck_em_set", "r": self.pick(list(w.pool["reck"])),
                        "attr": attr, "d": self.pick(ds)}
        if k == "em_set":
            ems, ds = list(w.pool["em"]), list(w.pool["dist"])
            if not ems:
                return {"op": "new_errmodel", "out": w.new_id("em")}
            if not ds:
                return self.new_dist()
            attr = r.choice(["bs_reflectivity", "loss", "phase_offset"])
            role_ok = [d for d in ds if w.meta["dist"][d].get("role") == attr]
            if r.random() < 0.08:
                role_ok = ds   # occasionally a distribution meant for another quantity
            d = self.pick(role_ok) if role_ok else None
            if d is None:
                return self.new_dist(attr)
            return {"op": "em_set", "em": self.pick(ems), "attr": attr, "d": d}
        if k == "draw":
            ds = list(w.pool["dist"])
            if not ds:
                return None
            return {"op": "dist_draw", "d": self.pick(ds), "n": r.choice([1, 3, 10, 30])}
        if k == "reseed":
            ds = [d for d in w.pool["dist"] if w.meta["dist"][d]["dkind"] != "constant"]
            if not ds:
                return None
            return {"op": "dist_seed", "d": self.pick(ds), "seed": self.seed_value()}
        if k == "script":
            if not cfg.get("faults"):
                return None
            ds = [d for d in w.pool["dist"] if w.meta["dist"][d]["dkind"] != "constant"]
            if not ds:
                return None
            d = self.pick(ds)
            m = w.meta["dist"][d]
            if m["dkind"] == "gaussian":
                c, dev, lo, hi = (m["args"] + [None, None])[:4]
                lo = -math.inf if lo is None else lo
                hi = math.inf if hi is None else hi
                if math.isinf(lo) and math.isinf(hi):
                    return None
                kk = r.randint(1, 50)
                span = (hi - lo) if not (math.isinf(lo) or math.isinf(hi)) else 1.0
                outside = []
                for _ in range(kk):
                    if not math.isinf(hi) and (math.isinf(lo) or r.random() < 0.5):
                        outside.append(hi + r.uniform(1e-9, 1) * max(span, 1e-3))
                    else:
                        outside.append(lo - r.uniform(1e-9, 1) * max(span, 1e-3))
                inb = r.choice([lo if not math.isinf(lo) else hi,
                                hi if not math.isinf(hi) else lo,
                                (max(lo, -1e6) + min(hi, 1e6)) / 2])
                self.queue_draw = {"op": "dist_draw", "d": d, "n": 1,
                                   "expect_draws": kk + 1, "expect_value": inb}
                return {"op": "dist_seed", "d": d, "seed": r.randrange(1 << 30),
                        "normals": [*outside, inb]}
            self.queue_draw = {"op": "dist_draw", "d": d, "n": 2,
                               "edge_uniform": True}
            return {"op": "dist_seed", "d": d, "seed": r.randrange(1 << 30),
                    "uniforms": [0.0, 1 - 2.0 ** -53]}
        if not cfg.get("faults"):
            return None
        w.stats["fault:reject_issued"] += 1
        kk = r.choice(["reck", "em", "gauss", "tophat", "nonnumber"])
        if kk == "reck":
            return {"op": "new_reck", "out": w.new_id("reck"), "raw": True,
                    "value": 3, "reject": True}
        if kk == "em":
            ems = list(w.pool["em"])
            if not ems:
                return None
            return {"op": "em_set", "em": self.pick(ems),
                    "attr": r.choice(["bs_reflectivity", "loss", "phase_offset"]),
                    "value": r.choice([1, None, True]), "reject": True}
        if kk == "gauss":
            return {"op": "new_dist", "dkind": "gaussian", "args": [0.5, 0.1, 1, 0],
                    "out": w.new_id("dist"), "reject": True}
        if kk == "tophat":
            return {"op": "new_dist", "dkind": "tophat", "args": [1, 0],
                    "out": w.new_id("dist"), "reject": True}
        return {"op": "new_dist", "dkind": "tophat", "args": ["a", 1],
                "out": w.new_id("dist"), "reject": True}

    queue_draw = None
    pending: list = []

    def twin_remap(self):
        """The last map again, with the same seed, on a *separately built* but
        identically configured error model and interferometer."""
        r, w = self.rng, self.w
        lm = getattr(self, "last_map", None)
        if lm is None or not w.has("reck", lm["r"]) or not w.has("c", lm["c"]):
            return None
        if len(w.pool["dist"]) > 12 or len(w.pool["reck"]) > 8:
            return None
        rm = w.meta["reck"][lm["r"]]
        em_id = rm.get("em")
        if em_id is None or not w.has("em", em_id):
            return None
        em = w.meta["em"][em_id]
        new_em, new_r = w.new_id("em"), w.new_id("reck")
        q = [{"op": "new_errmodel", "out": new_em}]
        made = {}
        for attr in ("bs_reflectivity", "loss", "phase_offset"):
            d = em.get(attr)
            if d is None or not w.has("dist", d):
                continue
            if d not in made:
                nd = w.new_id("dist")
                made[d] = nd
                dm = w.meta["dist"][d]
                q.append({"op": "new_dist", "dkind": dm["dkind"],
                          "args": list(dm["args"]), "out": nd,
                          "seed": self.seed_value(), "role": dm.get("role")})
            q.append({"op": "em_set", "em": new_em, "attr": attr, "d": made[d]})
        if not made:
            return None
        q.append({"op": "new_reck", "out": new_r, "em": new_em})
        q.append({"op": "reck_map", "r": new_r, "c": lm["c"], "seed": lm["seed"]})
        self.pending = q
        w.stats["intent:twin_remap"] += 1
        return self.pending.pop(0)

    def new_dist(self, role=None):
        r, w = self.rng, self.w
        srcs = [d for d in w.pool["dist"] if w.meta["dist"][d]["dkind"] != "constant"]
        if srcs and r.random() < 0.15:
            # a separate object with exactly the parameters of an existing one
            dm = w.meta["dist"][self.pick(srcs)]
            return {"op": "new_dist", "dkind": dm["dkind"], "args": list(dm["args"]),
                    "out": w.new_id("dist"), "seed": self.seed_value(),
                    "role": role or r.choice(["loss", "phase_offset",
                                              dm.get("role") or "loss"])}
        role = role or r.choice(["bs_reflectivity", "loss", "phase_offset"])
        kind = r.choice(["constant", "gaussian", "gaussian", "tophat"])
        if role == "bs_reflectivity":
            c = r.choice([0.5, 0.45, 0.6])
            lo, hi = max(0.0, c - r.choice([0.05, 0.2])), min(1.0, c + r.choice([0.05, 0.2]))
            dev = r.choice([0.01, 0.05, 0.3])
        elif role == "loss":
            c = r.choice([0.0, 0.05, 0.2])
            lo, hi = 0.0, c + r.choice([0.0, 0.05, 0.2])
            dev = r.choice([0.01, 0.05, 0.3])
        else:
            c = r.choice([0.0, 0.1, -0.2])
            lo, hi = c - r.choice([0.05, 0.5]), c + r.choice([0.05, 0.5])
            dev = r.choice([0.01, 0.1, 1.0])
        if kind != "constant" and hi - lo < 1e-3:
            hi = lo + 0.05   # a Gaussian confined to a point never terminates
        if kind == "gaussian" and r.random() < 0.06:
            # centre outside its own bounds, acceptance of a few in ten thousand:
            # legal (documented as slow), every value must still be in bounds
            dev = 0.01
            if role == "loss":
                c, lo, hi = 0.02, round(0.02 + 3.5 * dev, 4), 1.0
            elif role == "bs_reflectivity":
                c, lo, hi = 0.5, round(0.5 + 3.5 * dev, 4), 1.0
            else:
                c, lo, hi = 0.0, round(3.5 * dev, 4), 0.5
            return {"op": "new_dist", "dkind": "gaussian",
                    "args": [c, dev, lo, hi], "out": w.new_id("dist"),
                    "seed": self.seed_value(), "role": role}
        if kind == "constant":
            args = [c]
        elif kind == "gaussian":
            x = r.random()
            if role == "phase_offset" and x < 0.25:
                args = [c, dev]
            elif x < 0.55:
                # one-sided bounds, often exactly 0 (a natural bound for loss)
                if role == "loss" or r.random() < 0.5:
                    args = [max(c, 0.02), dev, r.choice([0, 0, round(lo, 4)]), None]
                else:
                    args = [min(c, -0.02) if role == "phase_offset" else c, dev,
                            None, r.choice([0, round(hi, 4)]) if role == "phase_offset" else round(hi, 4)]
            else:
                args = [c, dev, round(lo, 4), round(hi, 4)]
        else:
            args = [round(lo, 4), round(hi, 4)]
        o = {"op": "new_dist", "dkind": kind, "args": args,
             "out": w.new_id("dist"), "seed": self.seed_value(), "role": role}
        return o

    def observe(self, op, out):
        pass


class MapperClient(Mapper):
    def propose(self):
        while self.pending:
            o = self.pending.pop(0)
            ok = all(self.w.has(kk, o[f]) for f, kk in (("c", "c"),) if f in o)
            if ok:
                return o
        if self.queue_draw is not None:
            o, self.queue_draw = self.queue_draw, None
            if self.w.has("dist", o["d"]):
                return o
        return super().propose()


# ---- monitor ----------------------------------------------------------------

def _bounds(desc):
    k = desc[0]
    a = list(desc[1:])
    if k == "constant":
        return (a[0], a[0])
    if k == "tophat":
        return (a[0], a[1])
    lo = a[2] if len(a) > 2 and a[2] is not None else -math.inf
    hi = a[3] if len(a) > 3 and a[3] is not None else math.inf
    return (lo, hi)


def _walk(spec):
    for s in spec:
        if type(s).__name__ == "Group":
            yield from _walk(s.circuit_spec)
        else:
            yield s


def spec_fields(c) -> list:
    out = []
    for s in _walk(c._get_circuit_spec()):
        vals = []
        for v in s.values():
            if isinstance(v, np.ndarray):
                vals.append(("arr", v.shape, v.tobytes()))
            elif isinstance(v, dict):
                vals.append(tuple(sorted(v.items())))
            elif isinstance(v, list):
                vals.append(tuple(v))
            else:
                vals.append(v)
        out.append((type(s).__name__, tuple(vals)))
    return out


class ReckMonitor(Monitor):
    prop = "C14"
    name = "reck"

    def __init__(self, world):
        super().__init__(world)
        self.memo: dict = {}

    def pre(self, op, snap):
        self._scripted = None
        w = self.w
        if op["op"] == "dist_draw" and w.has("dist", op["d"]):
            g = w.meta["dist"][op["d"]].get("scripted")
            if g is not None:
                self._scripted = (g, g.n_normal, g.n_uniform)

    def em_config(self, reck_id):
        w = self.w
        em_id = w.meta["reck"][reck_id].get("em")
        if em_id is None or not w.has("em", em_id):
            m = w.meta["reck"][reck_id].get("own") or {}
            if not m:
                return ("default",), {"bs_reflectivity": ("constant", 0.5),
                                      "loss": ("constant", 0),
                                      "phase_offset": ("constant", 0)}, True
        else:
            m = w.meta["em"][em_id]
        descs, ids = {}, []
        defaults = {"bs_reflectivity": ("constant", 0.5), "loss": ("constant", 0),
                    "phase_offset": ("constant", 0)}
        for attr in ("bs_reflectivity", "loss", "phase_offset"):
            d = m.get(attr)
            if d is None or not w.has("dist", d):
                descs[attr] = defaults[attr]
                ids.append(None)
            else:
                descs[attr] = dist_desc(w, d)
                ids.append(d)
        share = (ids[0] is not None and ids[0] == ids[1],
                 ids[0] is not None and ids[0] == ids[2],
                 ids[1] is not None and ids[1] == ids[2])
        key = (tuple(descs[a] for a in ("bs_reflectivity", "loss", "phase_offset")), share)
        trivial = all(descs[a] == defaults[a] for a in descs)
        return key, descs, trivial

    def post(self, op, out, before, after):
        w = self.w
        k = op["op"]
        if k == "dist_draw" and out["status"] == "ok" and w.has("dist", op["d"]):
            return self.check_draw(op)
        if k != "reck_map" or not w.has("reck", op["r"]) or not w.has("c", op["c"]):
            return []
        c = w.pool["c"][op["c"]]
        co = obs_circuit(c)
        if isinstance(co[4], tuple):
            return []     # not a compilable circuit: undocumented input
        if co[4].shape[0] != c.n_modes:
            # loss modes present: lossless only if every loss is exactly zero
            cu = co[4][: c.n_modes, : c.n_modes]
            if not np.allclose(cu @ cu.conj().T, np.identity(c.n_modes), atol=1e-10):
                return []
            w.probe("map_of_circuit_with_zero_loss_elements")
            co = (*co[:4], cu)
        key, descs, trivial = self.em_config(op["r"])
        sig = {"trivial_model": trivial}
        if out["status"] != "ok":
            for attr in ("bs_reflectivity", "loss"):
                lo, hi = _bounds(descs[attr])
                if lo < 0 or hi > 1:
                    # the declared bounds allow values the component rejects:
                    # refusing is legitimate
                    w.probe("map_refused_invalid_model")
                    return []
            return [self.v({**sig, "kind": "map_raised", "exc": out["exc"]},
                           f"Reck.map raised {out['exc']}: {out.get('msg')} on a "
                           f"lossless {c.n_modes}-mode circuit")]
        m = w.extra["last_result"]
        mo = obs_circuit(m)
        w.probe("map_checked")
        comps = list(_walk(m._get_circuit_spec()))
        # structure
        for s in comps:
            tn = type(s).__name__
            if tn not in ("Barrier", "PhaseShifter", "BeamSplitter", "Loss"):
                return [self.v({**sig, "kind": "foreign_component", "type": tn},
                               f"mapped circuit contains a {tn}")]
            if tn == "BeamSplitter" and abs(s.mode_1 - s.mode_2) != 1:
                return [self.v({**sig, "kind": "nonadjacent_bs"},
                               f"beam splitter on modes {s.mode_1},{s.mode_2}")]
        if isinstance(mo[4], tuple):
            return [self.v({**sig, "kind": "mapped_does_not_compile"},
                           str(mo[4]))]
        if mo[0] != co[0] or mo[2] != co[2] or mo[3] != co[3]:
            return [self.v({**sig, "kind": "heralds_or_size_differ"},
                           f"mapped {mo[:4]} original {co[:4]}")]
        mu = mo[4][: m.n_modes, : m.n_modes]
        if not np.all(np.isfinite(mo[4])):
            return [self.v({**sig, "kind": "mapped_unitary_not_finite"},
                           "the mapped circuit's matrix contains nan or inf")]
        sv = np.linalg.svd(mu, compute_uv=False)
        if sv.max() > 1 + 1e-9:
            return [self.v({**sig, "kind": "not_a_contraction"},
                           f"largest singular value {sv.max()}")]
        # drawn values within declared bounds
        blo, bhi = _bounds(descs["bs_reflectivity"])
        llo, lhi = _bounds(descs["loss"])
        plo, phi_ = _bounds(descs["phase_offset"])
        losses = []
        for s in comps:
            tn = type(s).__name__
            if tn == "BeamSplitter":
                rv = s.reflectivity
                if not (max(blo, 0) - 1e-12 <= rv <= min(bhi, 1) + 1e-12):
                    return [self.v({**sig, "kind": "reflectivity_out_of_bounds"},
                                   f"{rv} outside [{blo}, {bhi}]")]
            elif tn == "Loss":
                losses.append(s.loss)
                if not (max(llo, 0) - 1e-12 <= s.loss <= min(lhi, 1) + 1e-12):
                    return [self.v({**sig, "kind": "loss_out_of_bounds"},
                                   f"{s.loss} outside [{llo}, {lhi}]")]
            elif tn == "PhaseShifter":
                if not (0 <= s.phi < TWO_PI):
                    return [self.v({**sig, "kind": "phase_outside_0_2pi"},
                                   f"phi = {s.phi!r}")]
        if not losses and lhi > 0 and descs["loss"][0] != "constant":
            pass
        # phase offsets against the default-model mapping of the same circuit
        if descs["phase_offset"] != ("constant", 0) and not (
                math.isinf(plo) and math.isinf(phi_)):
            try:
                dm = itf.Reck().map(c)
                p0 = [s.phi for s in _walk(dm._get_circuit_spec())
                      if type(s).__name__ == "PhaseShifter"]
                p1 = [s.phi for s in comps if type(s).__name__ == "PhaseShifter"]
                if len(p0) == len(p1):
                    width = phi_ - plo
                    for a, b in zip(p1, p0, strict=True):
                        off = (a - b - plo) % TWO_PI
                        if width < TWO_PI and not (off <= width + 1e-9 or off >= TWO_PI - 1e-9):
                            return [self.v({**sig, "kind": "phase_offset_out_of_bounds"},
                                           f"offset {(a - b) % TWO_PI} outside "
                                           f"[{plo}, {phi_}] (mod 2pi)")]
                    w.probe("phase_offsets_checked")
            except Exception:  # noqa: BLE001
                pass
        if all(l == 0 for l in losses):
            if abs(sv.min() - 1) > 1e-8 or abs(sv.max() - 1) > 1e-8:
                return [self.v({**sig, "kind": "lossless_map_not_unitary"},
                               f"singular values in [{sv.min()}, {sv.max()}]")]
        if trivial:
            w.probe("default_model_map")
            cu = co[4][: c.n_modes, : c.n_modes]
            if not np.allclose(mu, cu, atol=1e-9, rtol=0):
                return [self.v({**sig, "kind": "default_map_changes_unitary",
                                "n_modes": c.n_modes},
                               f"max |U_mapped - U| = {np.max(np.abs(mu - cu)):.3g}")]
            if losses:
                return [self.v({**sig, "kind": "default_map_has_loss"}, "")]
        else:
            w.probe("noisy_model_map")
        # same seed + same configuration + same circuit => same mapped circuit
        from .ops import plain  # noqa: PLC0415
        mk = (plain(op["seed"]), obs_digest(co), key)
        fields = spec_fields(m)
        prev = self.memo.get(mk)
        if prev is not None:
            w.probe("same_seed_remap")
            if prev != fields:
                return [self.v({**sig, "kind": "seed_not_reproducible"},
                               "two maps with the same seed, circuit and "
                               "error-model configuration differ")]
        self.memo[mk] = fields
        return []

    def check_draw(self, op):
        w = self.w
        vals = w.extra.get("last_result") or []
        desc = dist_desc(w, op["d"])
        lo, hi = _bounds(desc)
        for v in vals:
            if not (lo <= v <= hi):
                return [self.v({"kind": "draw_out_of_bounds", "dist": desc[0]},
                               f"{v} outside [{lo}, {hi}]")]
        w.probe("draw_checked")
        if self._scripted is not None:
            g, n0, u0 = self._scripted
            if op.get("expect_draws") is not None:
                w.probe("resample_loop_scripted")
                used = g.n_normal - n0
                if used != op["expect_draws"] or abs(vals[0] - op["expect_value"]) > 0:
                    return [self.v({"kind": "resampling_wrong"},
                                   f"expected the in-bounds value "
                                   f"{op['expect_value']} after "
                                   f"{op['expect_draws']} draws, got {vals[0]} "
                                   f"after {used}")]
            if op.get("edge_uniform"):
                w.probe("edge_uniform_scripted")
        return []
