import sys

from labsim.cli import main

sys.exit(main())
