"""Profiles: per-property client mix, swarm configuration and monitors."""
from __future__ import annotations

import hashlib
from collections import Counter

from . import clients as cl
from . import faults as fl
from .ops import shared_circuits


import os

# generation tier: "thorough" draws longer sessions and larger bounds.  Set by
# the CLI before workers fork; fresh interpreters get it through LABSIM_TIER.
TIER = os.environ.get("LABSIM_TIER", "quick")


def _spec_kinds(spec, acc: Counter, depth=0) -> None:
    for s in spec:
        acc[type(s).__name__] += 1
        if type(s).__name__ == "Group":
            _spec_kinds(s.circuit_spec, acc, depth + 1)


def circuit_shape(c) -> tuple:
    acc: Counter = Counter()
    try:
        _spec_kinds(c._get_circuit_spec(), acc)
    except Exception:  # noqa: BLE001
        acc["?"] += 1
    return (c.n_modes, len(c._internal_modes), len(c.heralds["input"]),
            tuple(sorted(acc.items())))


class Profile:
    name = "base"
    monitors: list = []
    clients: list = []
    steps = (25, 40)
    runs = {"quick": 1500, "thorough": 30000}
    det_runs = {"quick": 20, "thorough": 400}
    hash_runs = {"quick": 6, "thorough": 120}
    hash_seeds = {"quick": [1, 2], "thorough": [1, 2, 3, 4]}
    run_timeout = 120.0
    expected_probes: list = []
    stubs = ["scheduler PRNG (random.Random(VERIF_SEED-derived))",
             "process-global stdlib PRNG stream state set by operations; "
             "seed(None) mapped to a logged value"]
    assumptions: list = []

    def base_cfg(self, rng) -> dict:
        lo, hi = self.steps
        if TIER == "thorough":
            lo, hi = int(lo * 1.3), int(hi * 1.8)
        return {
            "tier": TIER,
            "steps": rng.randint(lo, hi),
            "min_circuits": rng.randint(2, 4),
            "max_circuits": rng.randint(6, 12),
            "max_modes": rng.randint(3, 8),
            "max_total_modes": 14,
            "max_ancillas": 6,
            "max_heralds": 3,
            "max_herald_photons": 3,
            "max_depth": 3,
            "max_params": rng.randint(0, 6),
            "emu_max_modes": 8,
            "p_param": rng.choice([0.0, 0.2, 0.35, 0.5]),
            "p_mpl": 0.04,
            "use_shared": rng.random() < 0.8,
            "stream_seed": rng.randrange(1 << 30),
            "entropy_seed": rng.randrange(1 << 30),
            "simset": False,
            "perm_seed": rng.randrange(1 << 30),
            "prob_threshold": rng.choice([None, None, None, 1e-12, 1e-6, 1e-3,
                                          0.02, 0.04]),
        }

    def swarm(self, rng) -> dict:
        cfg = self.base_cfg(rng)
        # swarm: each client kind gets a random weight multiplier; some are off
        wts = {}
        for cls, base in self.clients:
            m = rng.choice([0.0, 0.5, 1.0, 1.0, 2.0]) if base else 0
            wts[cls.name] = round(base * m, 3)
        # builder and composer are never disabled (no workload without them)
        for cls, base in self.clients:
            if cls.name in ("builder", "composer") and wts[cls.name] == 0:
                wts[cls.name] = base
        cfg["weights"] = wts
        cfg["faults"] = rng.random() < 0.75   # 1 run in 4 is fault-free
        if not cfg["faults"]:
            for k in ("rejector",):
                if k in wts:
                    wts[k] = 0.0
        return cfg

    def init_world(self, world) -> None:
        if world.cfg.get("use_shared", True):
            for k, g in shared_circuits().items():
                world.put("c", k, g, params=set(), log=[["opaque"]],
                          shared=True)

    def scheduler(self, world, rng):
        wts = world.cfg["weights"]
        return cl.Scheduler(world, rng, world.cfg,
                            [(cls, wts.get(cls.name, 0)) for cls, _b in self.clients])

    def world_shape(self, world) -> str:
        h = hashlib.sha256()
        shapes = sorted(circuit_shape(c) for cid, c in world.pool["c"].items()
                        if not isinstance(cid, str))
        h.update(repr(shapes).encode())
        for k in ("sam", "qs", "an", "tomo"):
            h.update(repr(sorted(str(m.get("state")) for m in world.meta[k].values())).encode())
        return h.hexdigest()[:16]


class C08(Profile):
    name = "C08"
    runs = {"quick": 3000, "thorough": 60000}
    steps = (25, 40)

    @property
    def monitors(self):
        from .monitors.c08 import FrameMonitor  # noqa: PLC0415
        return [FrameMonitor]

    expected_probes = ["failed_call_checked"]

    @property
    def clients(self):
        from . import consumers as co  # noqa: PLC0415
        return [(cl.Builder, 4), (cl.Composer, 3), (cl.Rewriter, 1.2),
                (cl.Tuner, 1), (cl.Bystander, 2.5), (fl.Rejector, 1.5),
                (co.SamplerUser, 0.5), (co.AnalyzerUser, 0.3)]

    def swarm(self, rng):
        cfg = super().swarm(rng)
        cfg["pool_states"] = True
        cfg["tomo_bystander"] = rng.random() < 0.7
        cfg["max_photons"] = 2
        return cfg


class C02(Profile):
    name = "C02"
    runs = {"quick": 6000, "thorough": 120000}
    steps = (20, 40)
    expected_probes = ["add_heralded_sub", "ancilla_inside_span",
                       "herald_in_ne_out_on_parent_with_ancilla",
                       "primitive_on_parent_with_ancilla"]

    @property
    def monitors(self):
        from .monitors.c02 import WiringMonitor  # noqa: PLC0415
        return [WiringMonitor]

    clients = [(cl.Builder, 4), (cl.Composer, 4), (fl.Rejector, 0.4)]

    def swarm(self, rng):
        cfg = super().swarm(rng)
        cfg["max_params"] = 0
        cfg["p_param"] = 0.0
        cfg["herald_boost"] = rng.choice([0.0, 0.1, 0.25])
        cfg["p_herald_in_ne_out"] = rng.choice([0.2, 0.5, 0.8])
        cfg["max_modes"] = rng.randint(3, 7)
        cfg["max_circuits"] = rng.randint(5, 10)
        return cfg


class C09(Profile):
    name = "C09"
    runs = {"quick": 4000, "thorough": 80000}
    steps = (25, 45)
    expected_probes = ["rewrite_unpack", "rewrite_compress",
                       "rewrite_remove_nonadj", "copy_plain", "copy_frozen"]

    @property
    def monitors(self):
        from .monitors.c09 import RewriteMonitor  # noqa: PLC0415
        return [RewriteMonitor]

    expected_probes = ["rewrite_unpack", "rewrite_compress",
                       "rewrite_remove_nonadj", "copy_plain", "copy_frozen",
                       "holder_reread_after_rewrite"]

    @property
    def clients(self):
        from . import consumers as co  # noqa: PLC0415
        return [(cl.Builder, 4), (cl.Composer, 2.5), (cl.Rewriter, 3),
                (cl.Tuner, 1), (cl.Bystander, 0.5), (co.SamplerUser, 0.8),
                (co.QuickUser, 0.5)]

    def swarm(self, rng):
        cfg = super().swarm(rng)
        cfg["emu_max_modes"] = 6
        cfg["max_photons"] = 2
        return cfg


class C10(Profile):
    name = "C10"
    runs = {"quick": 5000, "thorough": 100000}
    steps = (25, 45)
    expected_probes = ["twin_compared", "twin_unbuildable",
                       "invalid_value_surfaced", "rejected_update_checked"]

    @property
    def monitors(self):
        from .monitors.c10 import ParamMonitor, TwinMonitor  # noqa: PLC0415
        return [ParamMonitor, TwinMonitor]

    clients = [(cl.Builder, 4), (cl.Composer, 2), (cl.Rewriter, 1.5),
               (cl.Tuner, 4), (fl.Rejector, 1)]

    def swarm(self, rng):
        cfg = super().swarm(rng)
        cfg["max_params"] = rng.randint(2, 6)
        cfg["p_param"] = rng.choice([0.35, 0.5, 0.7])
        cfg["weights"]["tuner"] = max(cfg["weights"]["tuner"], 2.0)
        cfg["p_poison"] = rng.choice([0.05, 0.1, 0.2])
        return cfg


class C11(Profile):
    name = "C11"
    pristine_oracle = True
    runs = {"quick": 2500, "thorough": 50000}
    steps = (30, 60)
    expected_probes = ["fresh_compared", "sampling_without_prior_read",
                       "both_raise", "first_read_after_fault",
                       "callback_failure_propagated"]

    @property
    def monitors(self):
        from .monitors.c11 import FreshMonitor  # noqa: PLC0415
        return [FreshMonitor]

    @property
    def clients(self):
        from . import consumers as co  # noqa: PLC0415
        return [(cl.Builder, 2.5), (cl.Composer, 1), (cl.Rewriter, 0.7),
                (cl.Tuner, 1.5), (co.SamplerUser, 4), (co.QuickUser, 3),
                (co.AnalyzerUser, 1.5)]

    def swarm(self, rng):
        cfg = super().swarm(rng)
        cfg["max_modes"] = rng.randint(2, 5)
        cfg["emu_max_modes"] = 6 if TIER != "thorough" else rng.choice([6, 7])
        cfg["max_total_modes"] = 8 if TIER != "thorough" else 9
        cfg["max_heralds"] = 2
        cfg["max_herald_photons"] = 2
        cfg["max_photons"] = rng.choice([1, 2, 2, 3])
        cfg["max_params"] = rng.randint(0, 4)
        cfg["p_poison"] = rng.choice([0.05, 0.1, 0.2])
        cfg["source_sweep"] = True
        for k in ("sampler_user", "quick_user", "analyzer_user"):
            pass
        # at least one consumer kind is always on
        w = cfg["weights"]
        if w["sampler_user"] == 0 and w["quick_user"] == 0 and w["analyzer_user"] == 0:
            w["sampler_user"] = 4
        return cfg


class C07(Profile):
    name = "C07"
    runs = {"quick": 1500, "thorough": 30000}
    steps = (25, 45)
    expected_probes = ["per_call_checked", "seed_pair_checked",
                       "distribution_checked"]

    @property
    def monitors(self):
        from .monitors.c07 import SamplingMonitor  # noqa: PLC0415
        return [SamplingMonitor]

    @property
    def clients(self):
        from . import consumers as co  # noqa: PLC0415
        return [(cl.Builder, 2.0), (cl.Composer, 1), (co.SamplerUser, 5),
                (co.QuickUser, 2.5), (cl.Bystander, 0.6)]

    def swarm(self, rng):
        cfg = super().swarm(rng)
        cfg["max_modes"] = rng.randint(2, 5)
        cfg["emu_max_modes"] = 6 if TIER != "thorough" else rng.choice([6, 7])
        cfg["max_total_modes"] = 8 if TIER != "thorough" else 9
        cfg["max_heralds"] = 2
        cfg["max_herald_photons"] = 2
        cfg["max_photons"] = rng.choice([1, 2, 2, 3])
        cfg["max_params"] = 0
        cfg["p_param"] = 0
        cfg["big_n"] = True
        cfg["prob_threshold"] = rng.choice([None, None, 1e-6, 1e-3, 0.02, 0.04])
        cfg["convert"] = False
        w = cfg["weights"]
        w["sampler_user"] = max(w["sampler_user"], 2.5)
        return cfg


class C15(Profile):
    name = "C15"
    real_hash_check = True
    runs = {"quick": 3000, "thorough": 60000}
    steps = (30, 55)
    expected_probes = ["protocol_checked", "rho_checked",
                       "same_state_other_order", "qpu_failure_propagated",
                       "retry_after_qpu_failure"]
    stubs = Profile.stubs + [
        "simulated QPU: the tomography `experiment` callback computes exact "
        "dual-rail outcome probabilities from each handed circuit's public "
        "U_full/heralds with the harness's own permanent",
        "SimSet: module-global `set` injected into tomography.utils et al., "
        "iteration order = f(permutation seed)"]

    @property
    def monitors(self):
        from .tomo import TomoMonitor  # noqa: PLC0415
        return [TomoMonitor]

    @property
    def clients(self):
        from .tomo import TomoClient  # noqa: PLC0415
        return [(TomoClient, 6), (cl.Bystander, 0.7)]

    def swarm(self, rng):
        cfg = self.base_cfg(rng)
        cfg["weights"] = {"tomographer": 6, "bystander": rng.choice([0, 0.7, 1.5])}
        cfg["faults"] = rng.random() < 0.75
        cfg["use_shared"] = True
        cfg["simset"] = True
        cfg["max_params"] = 0
        cfg["p_param"] = 0
        cfg["convert"] = rng.random() < 0.5
        cfg["emu_max_modes"] = 6
        cfg["tomo_qubits"] = ([1, 2, 2, 1, 2, 2, 2, 3] if TIER != "thorough"
                              else [1, 2, 2, 3])
        cfg["min_circuits"] = 0
        return cfg


class C14(Profile):
    name = "C14"
    runs = {"quick": 3000, "thorough": 60000}
    steps = (30, 55)
    expected_probes = ["map_checked", "default_model_map", "noisy_model_map",
                       "same_seed_remap", "resample_loop_scripted",
                       "phase_offsets_checked", "draw_checked"]
    stubs = Profile.stubs + [
        "scripted numpy Generator inside one Distribution (installed through "
        "the public set_random_seed with the module name `random` shimmed)"]

    @property
    def monitors(self):
        from .interf import ReckMonitor  # noqa: PLC0415
        return [ReckMonitor]

    @property
    def clients(self):
        from .interf import MapperClient  # noqa: PLC0415
        return [(cl.Builder, 3), (cl.Composer, 1), (MapperClient, 5),
                (cl.Bystander, 0.3)]

    def swarm(self, rng):
        cfg = super().swarm(rng)
        cfg["max_modes"] = rng.randint(2, 6)
        cfg["max_total_modes"] = 7
        cfg["reck_max_modes"] = 6
        cfg["max_params"] = 0
        cfg["p_param"] = 0
        cfg["convert"] = False
        cfg["weights"]["mapper"] = max(cfg["weights"]["mapper"], 2.5)
        cfg["no_loss"] = True
        return cfg


class C17(Profile):
    name = "C17"
    real_hash_check = True
    runs = {"quick": 4000, "thorough": 80000}
    steps = (25, 45)
    expected_probes = ["indexing_checked", "mapping_checked",
                       "mapping_under_two_orders", "column_order_differed",
                       "amplitude_mapping_refused", "repeated_mapping_checked"]
    stubs = Profile.stubs + [
        "SimSet: module-global `set` injected into results.simulation_result "
        "et al., iteration order = f(permutation seed)"]

    @property
    def monitors(self):
        from .results import ResultMonitor  # noqa: PLC0415
        return [ResultMonitor]

    @property
    def clients(self):
        from .results import ResultUser  # noqa: PLC0415
        return [(cl.Builder, 2), (cl.Composer, 0.7), (ResultUser, 6)]

    def swarm(self, rng):
        cfg = super().swarm(rng)
        cfg["simset"] = True
        cfg["max_modes"] = rng.randint(2, 5)
        cfg["max_total_modes"] = 6
        cfg["max_params"] = 0
        cfg["p_param"] = 0
        cfg["weights"]["result_user"] = max(cfg["weights"]["result_user"], 3)
        return cfg


PROFILES = {"C17": C17(), "C14": C14(), "C15": C15(), "C07": C07(), "C11": C11(), "C08": C08(), "C02": C02(), "C09": C09(), "C10": C10()}


def get(name: str) -> Profile:
    return PROFILES[name]
