"""Process environment for LabSim.  Imported first by every entry point."""
import os
import sys
import warnings

os.environ.setdefault("MPLBACKEND", "Agg")
for _v in ("OMP_NUM_THREADS", "OPENBLAS_NUM_THREADS", "MKL_NUM_THREADS",
           "NUMBA_NUM_THREADS"):
    os.environ.setdefault(_v, "1")

REPO = os.environ.get("LABSIM_REPO", "/repo")
VERIF = os.path.dirname(os.path.dirname(os.path.abspath(__file__)))

# A scratch copy of the library (sensitivity runs) is selected with
# LABSIM_REPO=<dir>; it is put first on sys.path so that it shadows the
# editable install of /repo.
if REPO != "/repo" or True:
    if REPO not in sys.path:
        sys.path.insert(0, REPO)

warnings.simplefilter("ignore")


def import_lightworks():
    """Import lightworks from REPO's working tree and verify where it came from."""
    import lightworks  # noqa: PLC0415

    path = os.path.realpath(lightworks.__file__)
    want = os.path.realpath(os.path.join(REPO, "lightworks"))
    if not path.startswith(want + os.sep):
        raise RuntimeError(
            f"lightworks imported from {path}, expected under {want}"
        )
    return lightworks
