"""Small executable reference models, written independently of the code under
test: Ryser permanent, Fock amplitudes, the labelled-mode wiring model for
sub-circuit addition (C02), detector pipeline (C07), Pauli algebra (C15)."""
from __future__ import annotations

import itertools
import math
from functools import lru_cache

import numpy as np


# --------------------------------------------------------------------------
# permanents and amplitudes


@lru_cache(maxsize=None)
def _subsets(n: int):
    s = np.array(list(itertools.product([0, 1], repeat=n)), dtype=float)
    s = s[1:]  # drop the empty set
    sign = (-1.0) ** (n - s.sum(axis=1))
    return s.T.copy(), sign


def perm(a: np.ndarray) -> complex:
    """Ryser permanent (vectorised over subsets)."""
    n = a.shape[0]
    if n == 0:
        return 1.0 + 0j
    if n == 1:
        return complex(a[0, 0])
    st, sign = _subsets(n)
    rs = a @ st                      # n x (2^n - 1) row sums
    return complex((sign * np.prod(rs, axis=0)).sum())


def fock_amp(u: np.ndarray, xin, yout) -> complex:
    if sum(xin) != sum(yout):
        return 0j
    rows = [i for i, n in enumerate(yout) for _ in range(n)]
    cols = [i for i, n in enumerate(xin) for _ in range(n)]
    sub = u[np.ix_(rows, cols)]
    norm = math.sqrt(math.prod(math.factorial(n) for n in xin)
                     * math.prod(math.factorial(n) for n in yout))
    return perm(sub) / norm


def fock_states(nm: int, n: int):
    if nm == 0:
        if n == 0:
            yield []
        return
    for k in range(n + 1):
        for rest in fock_states(nm - 1, n - k):
            yield [k, *rest]


def real_amp(circ, x, y, u=None) -> complex:
    """Heralded amplitude x -> y of a real circuit from its public
    U_full / heralds / n_modes (vacuum on loss modes)."""
    u = circ.U_full if u is None else u
    big = u.shape[0]
    h = circ.heralds
    xin, yout = [0] * big, [0] * big
    fi = [m for m in range(circ.n_modes) if m not in h["input"]]
    fo = [m for m in range(circ.n_modes) if m not in h["output"]]
    for m, n in h["input"].items():
        xin[m] = n
    for m, n in h["output"].items():
        yout[m] = n
    for m, n in zip(fi, x, strict=True):
        xin[m] = n
    for m, n in zip(fo, y, strict=True):
        yout[m] = n
    return fock_amp(u, xin, yout)


# --------------------------------------------------------------------------
# wiring model (C02)


class Ref:
    """Labelled-mode reference of a circuit: ('u', i) user-visible wire i,
    ('a', k) private ancilla, ('l', k) loss mode."""

    _fresh = itertools.count()

    def __init__(self, n: int) -> None:
        self.labels = [("u", i) for i in range(n)]
        self.U = np.eye(n, dtype=complex)
        self.in_h: dict = {}
        self.out_h: dict = {}
        self.ext: list = []  # externally declared heralds (in_label, out_label, n)

    def copy(self) -> "Ref":
        r = Ref(0)
        r.labels = list(self.labels)
        r.U = self.U.copy()
        r.in_h = dict(self.in_h)
        r.out_h = dict(self.out_h)
        r.ext = list(self.ext)
        return r

    # -- queries
    def idx(self, lab) -> int:
        return self.labels.index(lab)

    @property
    def n_user(self) -> int:
        return sum(1 for lab in self.labels if lab[0] == "u")

    @property
    def n_anc(self) -> int:
        return sum(1 for lab in self.labels if lab[0] == "a")

    @property
    def n_modes(self) -> int:
        return self.n_user + self.n_anc

    @property
    def free_in(self) -> list:
        return sorted(lab for lab in self.labels
                      if lab[0] == "u" and lab not in self.in_h)

    @property
    def free_out(self) -> list:
        return sorted(lab for lab in self.labels
                      if lab[0] == "u" and lab not in self.out_h)

    # -- construction
    def _newmode(self, kind: str):
        lab = (kind, next(Ref._fresh))
        self.labels.append(lab)
        n = len(self.labels)
        u = np.eye(n, dtype=complex)
        u[: n - 1, : n - 1] = self.U
        self.U = u
        return lab

    def apply_user(self, m: np.ndarray, modes: list, extra_labels=()) -> None:
        """Left-multiply by m acting on the given user wires (+ extra labels)."""
        ix = [self.idx(("u", k)) for k in modes] + [self.idx(x) for x in extra_labels]
        e = np.eye(len(self.labels), dtype=complex)
        e[np.ix_(ix, ix)] = m
        self.U = e @ self.U

    def apply_component(self, full: np.ndarray, n_loss_new: int = 0) -> None:
        """`full` is the matrix the real component class produces on the
        ancilla-free index space (n_user [+1 fresh loss mode])."""
        nu = self.n_user
        extra = [self._newmode("l") for _ in range(n_loss_new)]
        assert full.shape[0] == nu + n_loss_new
        self.apply_user(full, list(range(nu)), extra)

    def herald(self, n: int, i: int, o: int | None = None) -> None:
        if o is None:
            o = i
        self.in_h[("u", i)] = n
        self.out_h[("u", o)] = n
        self.ext.append((("u", i), ("u", o), n))

    def add(self, sub: "Ref", m: int) -> None:
        """Embed `sub` at user wire m, by the words of the property."""
        sub = sub.copy()
        a, b = sub.free_in, sub.free_out
        assert len(a) == len(b)
        colmap, rowmap = {}, {}
        for i, (ai, bi) in enumerate(zip(a, b, strict=True)):
            colmap[ai] = ("u", m + i)
            rowmap[bi] = ("u", m + i)
        newh = []
        for (hi, ho, n) in sub.ext:
            anc = self._newmode("a")
            colmap[hi] = anc
            rowmap[ho] = anc
            newh.append((anc, n))
        for lab in sub.labels:
            if lab[0] != "u":
                anc = self._newmode(lab[0])
                colmap[lab] = anc
                rowmap[lab] = anc
                if lab in sub.in_h:
                    newh.append((anc, sub.in_h[lab]))
        e = np.eye(len(self.labels), dtype=complex)
        touched = set(colmap.values())
        assert touched == set(rowmap.values())
        for t in touched:
            e[self.idx(t), self.idx(t)] = 0
        for ro, rl in rowmap.items():
            for co, cl in colmap.items():
                e[self.idx(rl), self.idx(cl)] = sub.U[sub.idx(ro), sub.idx(co)]
        self.U = e @ self.U
        for anc, n in newh:
            self.in_h[anc] = n
            self.out_h[anc] = n

    # -- observation
    def amp(self, x, y) -> complex:
        n = len(self.labels)
        xin, yout = [0] * n, [0] * n
        for lab, k in self.in_h.items():
            xin[self.idx(lab)] = k
        for lab, k in self.out_h.items():
            yout[self.idx(lab)] = k
        for lab, k in zip(self.free_in, x, strict=True):
            xin[self.idx(lab)] = k
        for lab, k in zip(self.free_out, y, strict=True):
            yout[self.idx(lab)] = k
        return fock_amp(self.U, xin, yout)

    def herald_multiset(self) -> tuple:
        return (sorted(self.in_h.values()), sorted(self.out_h.values()))

    @staticmethod
    def from_real(c, internal=None) -> "Ref":
        """Adopt a real circuit as given (flat circuits; library gates).
        `internal` lists the full-index modes that are private ancillas."""
        internal = sorted(internal or [])
        u = c.U_full
        r = Ref(0)
        nm = c.n_modes
        ui = 0
        labs = []
        for m in range(nm):
            if m in internal:
                labs.append(("a", next(Ref._fresh)))
            else:
                labs.append(("u", ui))
                ui += 1
        for _ in range(u.shape[0] - nm):
            labs.append(("l", next(Ref._fresh)))
        r.labels = labs
        r.U = np.array(u, dtype=complex)
        h = c.heralds
        for mi, mo in zip(h["input"], h["output"], strict=True):
            n = h["input"][mi]
            r.in_h[labs[mi]] = n
            r.out_h[labs[mo]] = n
            if labs[mi][0] == "u" or labs[mo][0] == "u":
                r.ext.append((labs[mi], labs[mo], n))
        return r

    def resync_flat(self, c) -> None:
        """Flat circuit (no ancilla): take U_full from the real code, keep the
        herald declarations recorded from the operations."""
        u = c.U_full
        nm = self.n_user
        self.labels = [("u", i) for i in range(nm)] + [
            ("l", next(Ref._fresh)) for _ in range(u.shape[0] - nm)]
        self.U = np.array(u, dtype=complex)


# --------------------------------------------------------------------------
# detector pipeline (C07): documented model, written independently


def _mode_dist(n: int, eta: float, p_dark: float, pnr: bool) -> dict:
    """Distribution of the count registered on one mode that holds n photons:
    each photon detected independently with probability eta, then at most one
    dark count with probability p_dark, then (threshold detectors) cap at 1."""
    out: dict = {}
    for k in range(n + 1):
        pk = math.comb(n, k) * eta ** k * (1 - eta) ** (n - k)
        if pk == 0:
            continue
        for d, pd in ((0, 1 - p_dark), (1, p_dark)):
            if pd == 0:
                continue
            c = k + d
            if not pnr:
                c = min(c, 1)
            out[c] = out.get(c, 0.0) + pk * pd
    return out


def push_through_detector(pdist: dict, eta: float, p_dark: float, pnr: bool,
                          heralds_out: dict, accept, min_detection: int,
                          apply_efficiency: bool = True) -> dict:
    """pdist: {tuple(full state): p}.  Returns {tuple(heralded-removed state): q}
    (not renormalised: q sums to the accepted probability per input cycle)."""
    total = sum(pdist.values())
    res: dict = {}
    hm = sorted(heralds_out)
    for s, p in pdist.items():
        p = p / total
        per_mode = [_mode_dist(n, eta if apply_efficiency else 1.0, p_dark, pnr)
                    for n in s]
        # herald modes first: prune early
        ph = 1.0
        okh = True
        for m in hm:
            q = per_mode[m].get(heralds_out[m], 0.0)
            if q == 0:
                okh = False
                break
            ph *= q
        if not okh:
            continue
        rest = [m for m in range(len(s)) if m not in heralds_out]
        combos = [((), p * ph)]
        for m in rest:
            new = []
            for st, q in combos:
                for c, pc in per_mode[m].items():
                    new.append(((*st, c), q * pc))
            combos = new
        for st, q in combos:
            if sum(st) < min_detection:
                continue
            if not accept(st):
                continue
            res[st] = res.get(st, 0.0) + q
    return res


def bernstein_bound(q: float, n: int, big_l: float) -> float:
    return math.sqrt(2 * q * (1 - q) * big_l / n) + 2 * big_l / (3 * n)
