#!/bin/bash
# usage: tools/mutcheck.sh <patch.diff> <PROP> [runs] [extra check args]
# Applies a patch to a scratch worktree of /repo HEAD (never to /repo itself),
# runs ./check <PROP> quick against it, removes the worktree.
set -u
patch=$(realpath "$1"); prop=$2; runs=${3:-}; shift; shift; [ $# -gt 0 ] && shift
d=$(mktemp -d /tmp/lw-mut-XXXXXX)
rmdir "$d"
git -C /repo worktree add -q --detach "$d" HEAD || exit 3
if ! git -C "$d" apply "$patch"; then echo "PATCH-FAILED"; git -C /repo worktree remove --force "$d"; exit 3; fi
cd "$(dirname "$0")/.."
LABSIM_REPO="$d" ./check "$prop" quick ${runs:+--runs $runs} --no-selfcheck "$@" 2>&1 | grep -v "^  step"
rc=${PIPESTATUS[0]}
git -C /repo worktree remove --force "$d"
exit $rc
