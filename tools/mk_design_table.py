#!/venv/bin/python
"""Regenerates the seeded-change table of DESIGN.md section 10.5 from seeded/*/meta.json."""
import glob, json, re
rows = []
for d in sorted(glob.glob('/verif/seeded/*/')):
    m = json.load(open(d + 'meta.json'))
    rows.append((m['id'], m.get('summary', '')[:150].replace('|', '/').replace('\n', ' '),
                 m.get('needs', '')[:140].replace('|', '/').replace('\n', ' '),
                 ','.join(m.get('detected_by', [])), m.get('note', '').replace('|', '/')))
out = ["| id | change | needs | caught by (quick tier) | note |", "|----|--------|-------|------------------------|------|"]
for r in rows:
    out.append(f"| {r[0]} | {r[1]} | {r[2]} | {r[3]} | {r[4]} |")
n = len(rows)
noted = sum(1 for r in rows if r[4])
rounds = len({re.sub(r'^C\d+', '', r[0]).split('-')[0] for r in rows})
p = '/verif/DESIGN.md'
s = open(p).read()
a = s.index('| id | change | needs | caught by (quick tier) | note |')
b = s.index('\nWhat the misses taught')
s = s[:a] + "\n".join(out) + "\n" + s[b:]
s = re.sub(r'against the quick check\. \d+ changes from \w+ rounds are kept under `seeded/<id>/`\n\(patch\.diff, demo\.py, meta\.json\)\. \d+ were caught by the check as it stood when the\nchange arrived; \d+ were missed',
           f'against the quick check. {n} changes from {rounds} rounds are kept under `seeded/<id>/`\n(patch.diff, demo.py, meta.json). {n - noted} were caught by the check as it stood when the\nchange arrived; {noted} were missed', s)
s = re.sub(r'note column says how\)\. All \d+ are caught', f'note column says how). All {n} are caught', s)
open(p, 'w').write(s)
print(n, noted, rounds)
