#!/bin/bash
# Runs every quick check under several VERIF_SEED values (false-alarm hunt on the unchanged tree).
cd "$(dirname "$0")/.."
for s in "$@"; do
  for p in C02 C07 C08 C09 C10 C11 C14 C15 C17; do
    out=$(VERIF_SEED=$s ./check $p quick --no-selfcheck ${SWEEP_WORKERS:+--workers $SWEEP_WORKERS} 2>&1)
    rc=$?
    echo "seed=$s $p exit=$rc $(echo "$out" | grep -E '^runs=' | cut -c1-90)"
    [ $rc -ne 0 ] && echo "$out" | grep -E "VIOLATION|class|HARNESS" | head -5
  done
done
