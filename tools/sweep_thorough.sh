#!/bin/bash
# Runs every registered check in the thorough tier, one after the other.
cd "$(dirname "$0")/.."
rc=0
for p in C02 C07 C08 C09 C10 C11 C14 C15 C17; do
  echo "=== $p thorough $(date +%T)"
  ./check $p thorough ${SWEEP_WORKERS:+--workers $SWEEP_WORKERS} 2>&1 | grep -E "^VERIF|^runs=|^OK|^VIOLATION|^  class|^KNOWN|^HARNESS|^NOTE|^WARNING probes"
  r=${PIPESTATUS[0]}; [ $r -ne 0 ] && rc=$r
done
echo "sweep exit $rc"
exit $rc
