#!/venv/bin/python
"""usage: tools/seeded_save.py <srcdir> <id> <detected_by csv or ''> <summary-json> [note]"""
import json, os, shutil, sys
src, sid, det, summ = sys.argv[1:5]
note = sys.argv[5] if len(sys.argv) > 5 else ""
dst = os.path.join("/verif/seeded", sid)
os.makedirs(dst, exist_ok=True)
for f in ("patch.diff", "demo.py"):
    shutil.copy(os.path.join(src, f), os.path.join(dst, f))
meta = json.load(open(os.path.join(src, "meta.json")))
meta["id"] = sid
meta["base_commit"] = os.popen("git -C /repo rev-parse --short HEAD").read().strip()
meta["confirmed"] = json.loads(summ)
meta["what_i_ran"] = ("scratch worktree of /repo HEAD: demo.py on clean tree (exit 0), git apply patch.diff, "
                      "demo.py (non-zero exit), full pytest suite (all pass), then ./check <PROP> quick with "
                      "LABSIM_REPO=<worktree>; worktree removed afterwards (tools/seeded_verify.sh)")
meta["detected_by"] = [d for d in det.split(",") if d]
if note:
    meta["note"] = note
json.dump(meta, open(os.path.join(dst, "meta.json"), "w"), indent=1)
print("saved", dst)
