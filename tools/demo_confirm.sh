#!/bin/bash
# usage: tools/demo_confirm.sh <seeded id>...   (demo.py on a clean scratch worktree, then with the patch)
for id in "$@"; do
  src=/verif/seeded/$id
  d=$(mktemp -d /tmp/lw-demo-XXXXXX); rmdir "$d"
  git -C /repo worktree add -q --detach "$d" HEAD || exit 3
  mkdir -p "$d/_seeded/x"; cp "$src/demo.py" "$d/_seeded/x/demo.py"
  (cd "$d"; timeout 600 /venv/bin/python _seeded/x/demo.py > /dev/null 2>&1; echo -n "$id clean=$? ";
   git apply "$src/patch.diff" || echo -n "PATCH-FAILED ";
   timeout 600 /venv/bin/python _seeded/x/demo.py > /dev/null 2>&1; echo "mutant=$?")
  git -C /repo worktree remove --force "$d"
done
