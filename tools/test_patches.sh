#!/bin/bash
# usage: tools/test_patches.sh out.tsv patch1 patch2 ...   (runs the repo test suite on each patch in a scratch worktree)
out=$1; shift
: > "$out"
run_one() {
  p=$(realpath "$1"); out=$2
  d=$(mktemp -d /tmp/lw-tp-XXXXXX); rmdir "$d"
  git -C /repo worktree add -q --detach "$d" HEAD
  if git -C "$d" apply "$p" 2>/dev/null; then
    res=$(cd "$d" && timeout 1500 /venv/bin/python -m pytest -q -p no:cacheprovider --timeout=900 -x 2>&1 | tail -1)
  else
    res="PATCH-FAILED"
  fi
  git -C /repo worktree remove --force "$d"
  echo -e "$p\t$res" >> "$out"
}
export -f run_one
printf '%s\n' "$@" | xargs -P 4 -I{} bash -c "run_one {} $out"
