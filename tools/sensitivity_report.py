#!/venv/bin/python
"""Runs the quick check of the relevant property against every seeded change
and every hand-written sensitivity target (scratch worktrees, never /repo) and
writes sensitivity_report.json: violating runs out of runs explored per target."""
import glob, json, os, re, subprocess, sys, tempfile, time

BASE = os.path.dirname(os.path.dirname(os.path.abspath(__file__)))
out = {}
targets = []
for p in sorted(glob.glob(f"{BASE}/seeded/*/patch.diff")):
    m = json.load(open(os.path.join(os.path.dirname(p), "meta.json")))
    for prop in (m.get("detected_by") or [m["property"]]):
        targets.append((m["id"], prop, p))
for p in sorted(glob.glob(f"{BASE}/sensitivity/*.diff")):
    name = os.path.basename(p)[:-5]
    targets.append((name, name.split("-")[0], p))
only = sys.argv[1:] 
for name, prop, patch in targets:
    if only and not any(name.startswith(o) for o in only):
        continue
    d = tempfile.mkdtemp(prefix="lw-mut-", dir="/tmp"); os.rmdir(d)
    subprocess.run(["git", "-C", "/repo", "worktree", "add", "-q", "--detach", d, "HEAD"], check=True)
    t0 = time.time()
    try:
        if subprocess.run(["git", "-C", d, "apply", patch]).returncode != 0:
            out[f"{name}:{prop}"] = {"status": "patch does not apply"}
            continue
        e = dict(os.environ); e["LABSIM_REPO"] = d
        args = [f"{BASE}/check", prop, "quick", "--no-selfcheck"]
        if os.environ.get("SWEEP_WORKERS"):
            args += ["--workers", os.environ["SWEEP_WORKERS"]]
        r = subprocess.run(args, capture_output=True, text=True, env=e, cwd=BASE)
        m = re.search(r"runs=(\d+).*violating_runs=(\d+)", r.stdout)
        out[f"{name}:{prop}"] = {"exit": r.returncode, "runs": int(m.group(1)) if m else None,
                                 "violating_runs": int(m.group(2)) if m else None,
                                 "detected": r.returncode == 1 and "VIOLATION" in r.stdout,
                                 "wall_s": round(time.time() - t0, 1)}
        print(name, prop, out[f"{name}:{prop}"], flush=True)
    finally:
        subprocess.run(["git", "-C", "/repo", "worktree", "remove", "--force", d])
    json.dump(out, open(f"{BASE}/sensitivity_report.json", "w"), indent=1)
miss = [k for k, v in out.items() if not v.get("detected")]
print("missed:", miss)
