#!/venv/bin/python
"""Runs the quick check of the relevant property against every seeded change
and every hand-written sensitivity target (scratch worktrees, never /repo) and
writes sensitivity_report.json: violating runs out of runs explored per target."""
import glob, json, os, re, subprocess, sys, tempfile, time

BASE = os.path.dirname(os.path.dirname(os.path.abspath(__file__)))
out = {}
targets = []
for p in sorted(glob.glob(f"{BASE}/seeded/*/patch.diff")):
    m = json.load(open(os.path.join(os.path.dirname(p), "meta.json")))
    for prop in (m.get("detected_by") or [m["property"]]):
        targets.append((m["id"], prop, p))
for p in sorted(glob.glob(f"{BASE}/sensitivity/*.diff")):
    name = os.path.basename(p)[:-5]
    targets.append((name, name.split("-")[0], p))
only = sys.argv[1:]
if only and os.path.exists(f"{BASE}/sensitivity_report.json"):
    # partial re-run: keep the other entries
    out.update(json.load(open(f"{BASE}/sensitivity_report.json")))
from concurrent.futures import ThreadPoolExecutor
import threading
lock = threading.Lock()
JOBS = int(os.environ.get("SWEEP_JOBS", "1"))


def one(t):
    name, prop, patch = t
    d = tempfile.mkdtemp(prefix="lw-mut-", dir="/tmp"); os.rmdir(d)
    with lock:
        subprocess.run(["git", "-C", "/repo", "worktree", "add", "-q", "--detach", d, "HEAD"], check=True)
    t0 = time.time()
    try:
        if subprocess.run(["git", "-C", d, "apply", patch]).returncode != 0:
            res = {"status": "patch does not apply"}
        else:
            e = dict(os.environ); e["LABSIM_REPO"] = d
            args = [f"{BASE}/check", prop, "quick", "--no-selfcheck"]
            if os.environ.get("SWEEP_WORKERS"):
                args += ["--workers", os.environ["SWEEP_WORKERS"]]
            r = subprocess.run(args, capture_output=True, text=True, env=e, cwd=BASE)
            m = re.search(r"runs=(\d+).*violating_runs=(\d+)", r.stdout)
            res = {"exit": r.returncode, "runs": int(m.group(1)) if m else None,
                   "violating_runs": int(m.group(2)) if m else None,
                   "detected": r.returncode == 1 and "VIOLATION" in r.stdout,
                   "wall_s": round(time.time() - t0, 1)}
    finally:
        with lock:
            subprocess.run(["git", "-C", "/repo", "worktree", "remove", "--force", d])
    with lock:
        out[f"{name}:{prop}"] = res
        print(name, prop, res, flush=True)
        json.dump(out, open(f"{BASE}/sensitivity_report.json", "w"), indent=1, sort_keys=True)


todo = [t for t in targets if not only or any(t[0].startswith(o) for o in only)]
with ThreadPoolExecutor(JOBS) as ex:
    list(ex.map(one, todo))
miss = sorted(k for k, v in out.items() if not v.get("detected"))
thin = sorted(k for k, v in out.items() if v.get("detected") and (v.get("violating_runs") or 0) < 5)
print("targets:", len(out), "missed:", miss, "thin (<5 runs):", thin)
