#!/venv/bin/python
"""Generates the hand-written sensitivity targets of DESIGN section 4 as
patches under /verif/sensitivity/<PROP>-<name>.diff (text edits applied to a
scratch worktree of /repo HEAD; /repo itself is never touched)."""
import os
import subprocess
import sys
import tempfile

OUT = "/verif/sensitivity"
C = "lightworks/sdk/circuit/circuit.py"
CU = "lightworks/sdk/circuit/circuit_utils.py"
P = "lightworks/sdk/circuit/parameters.py"
S = "lightworks/emulator/simulation/sampler.py"
Q = "lightworks/emulator/simulation/quick_sampler.py"
D = "lightworks/emulator/components/detector.py"
A = "lightworks/emulator/simulation/analyzer.py"
R = "lightworks/interferometers/reck.py"
EM = "lightworks/interferometers/error_model.py"
G = "lightworks/interferometers/dists/gaussian.py"
TH = "lightworks/interferometers/dists/top_hat.py"
DEC = "lightworks/interferometers/decomposition.py"
ST = "lightworks/tomography/state_tomography.py"
TU = "lightworks/tomography/utils.py"
TM = "lightworks/tomography/mappings.py"
SR = "lightworks/emulator/results/simulation_result.py"
SMR = "lightworks/emulator/results/sampling_result.py"

# name: [(file, old, new), ...]
M = {
 # ---------------- C02
 "C02-map_mode_gt": [(C, "            if mode >= i:\n                mode += 1\n        return mode",
                         "            if mode > i:\n                mode += 1\n        return mode")],
 "C02-target_mode_ge": [(C, "                if target_mode > m:\n                    target_mode += 1",
                            "                if target_mode >= m:\n                    target_mode += 1")],
 "C02-swap_values_not_shifted": [(CU, "                k += 1 if k >= mode else 0\n                v += 1 if v >= mode else 0\n                swaps[k] = v",
                                      "                k += 1 if k >= mode else 0\n                v += 1 if v > mode else 0\n                swaps[k] = v")],
 "C02-herald_offset_dropped": [(C, "            self.__out_heralds[m + mode] = new_heralds[\"input\"][m]",
                                   "            self.__out_heralds[m + mode] = new_heralds[\"output\"].get(\n                m, new_heralds[\"input\"][m]\n            ) if False else new_heralds[\"input\"][sorted(new_heralds[\"input\"])[0]]")],
 "C02-map_mode_unsorted": [(C, "        for i in sorted(self.__internal_modes):\n            if mode >= i:",
                               "        for i in self.__internal_modes:\n            if mode >= i:")],
 "C02-group_herald_keys_not_shifted": [(CU, "            for m, n in out_heralds.items():\n                if m >= (mode - spec.mode_1) and mode - spec.mode_1 >= 0:\n                    m += 1",
                                            "            for m, n in out_heralds.items():\n                if m > (mode - spec.mode_1) and mode - spec.mode_1 >= 0:\n                    m += 1")],
 "C02-barrier_not_shifted": [(CU, "            spec.modes = [p + 1 if p >= mode else p for p in spec.modes]",
                                  "            spec.modes = [p + 1 if p > mode else p for p in spec.modes]")],
 "C02-bs_mode2_not_shifted": [(CU, "            spec.mode_2 += 1 if spec.mode_2 >= mode else 0\n        elif isinstance(spec, Barrier):",
                                   "            spec.mode_2 += 1 if spec.mode_2 > mode else 0\n        elif isinstance(spec, Barrier):")],
 # ---------------- C07
 "C07-dark_before_loss": [(D, "        if self.efficiency < 1:\n            for mode, n in enumerate(in_state):\n                for _i in range(n):\n                    if random() > self.efficiency:\n                        output[mode] -= 1\n        # Then include dark counts\n        if self.p_dark > 0:\n            for mode in range(len(in_state)):\n                if random() < self.p_dark:\n                    output[mode] += 1\n",
                              "        if self.p_dark > 0:\n            for mode in range(len(in_state)):\n                if random() < self.p_dark:\n                    output[mode] += 1\n        if self.efficiency < 1:\n            for mode, n in enumerate(output[:]):\n                for _i in range(n):\n                    if random() > self.efficiency:\n                        output[mode] -= 1\n")],
 "C07-efficiency_inverted": [(D, "                    if random() > self.efficiency:", "                    if random() < self.efficiency:")],
 "C07-min_detection_gt": [(S, "                if post_select.validate(hs) and hs.n_photons >= min_detection:",
                              "                if post_select.validate(hs) and hs.n_photons > min_detection:")],
 "C07-detector_not_reseeded": [(S, "        self.detector._set_random_seed(seed)\n", "")],
 "C07-herald_skipped_imperfect": [(S, "            for m, n in herald_items:\n                if state[m] != n:\n                    break\n", "            for m, n in herald_items:\n                if state[m] != n and self.detector.efficiency == 1:\n                    break\n")],
 "C07-n_outputs_threshold_dropped": [(S, "            if not self.detector.photon_counting:\n                s = State([min(i, 1) for i in s])  # noqa: PLW2901\n", "")],
 "C07-dark_count_two": [(D, "                if random() < self.p_dark:\n                    output[mode] += 1",
                            "                if random() < self.p_dark:\n                    output[mode] += 1 + (output[mode] > 1)")],
 "C07-n_outputs_min_detection_ignored": [(S, "                if new_s.n_photons >= min_detection and post_select.validate(",
                                             "                if new_s.n_photons >= min(min_detection, 1) and post_select.validate(")],
 # ---------------- C08
 "C08-copy_shares_spec_list": [(C, "            new_circ.__circuit_spec = copy(self.__circuit_spec)", "            new_circ.__circuit_spec = self.__circuit_spec")],
 "C08-add_modes_no_component_copy": [(CU, "    new_circuit_spec = []\n    for spec in circuit_spec:\n        spec = copy(spec)\n        if isinstance(spec, BeamSplitter):\n            spec.mode_1 += mode\n",
                                          "    new_circuit_spec = []\n    for spec in circuit_spec:\n        spec = copy(spec) if mode == 0 else spec\n        if isinstance(spec, BeamSplitter):\n            spec.mode_1 += mode\n")],
 "C08-copy_aliases_heralds": [(C, "        new_circ.__in_heralds = copy(self.__in_heralds)", "        new_circ.__in_heralds = self.__in_heralds")],
 "C08-plus_extends_left": [(C, "        new_circ.__circuit_spec = self.__circuit_spec + value.__circuit_spec\n        return new_circ",
                               "        self.__circuit_spec += value.__circuit_spec\n        new_circ.__circuit_spec = list(self.__circuit_spec)\n        return new_circ")],
 "C08-ps_appends_before_validating": [(C, "        check_loss(loss)\n        self.__circuit_spec.append(PhaseShifter(mode, phi))",
                                          "        self.__circuit_spec.append(PhaseShifter(mode, phi))\n        check_loss(loss)")],
 "C08-tomography_adds_to_base": [(ST, "        circuit = self.base_circuit.copy()\n", "        circuit = self.base_circuit if self.n_qubits > 1 else self.base_circuit.copy()\n")],
 "C08-swaps_append_before_range_check": [(C, "        for m in [*swaps.keys(), *swaps.values()]:\n            self._mode_in_range(m)\n        self.__circuit_spec.append(ModeSwaps(swaps))",
                                             "        self.__circuit_spec.append(ModeSwaps(swaps))\n        for m in [*swaps.keys(), *swaps.values()]:\n            self._mode_in_range(m)")],
 # ---------------- C09
 "C09-compress_skiplist_ignored": [(CU, "                # Ignore any swaps already combined with an earlier swap\n                if i + 1 + j in to_skip:\n                    continue\n", "")],
 "C09-compress_ignores_group_block": [(CU, "                elif isinstance(spec2, Group):\n                    for m in range(spec2.mode_1, spec2.mode_2 + 1):\n                        blocked_modes.add(m)\n",
                                           "                elif isinstance(spec2, Group):\n                    for m in range(spec2.mode_1, spec2.mode_2):\n                        blocked_modes.add(m)\n")],
 "C09-compress_ignores_unitary_block": [(CU, "                    for m in range(\n                        spec2.mode, spec2.mode + spec2.unitary.shape[0]\n                    ):",
                                             "                    for m in range(\n                        spec2.mode, spec2.mode + spec2.unitary.shape[0] - 1\n                    ):")],
 "C09-nonadj_wrong_mid": [(CU, "            mid = int((m1 + m2 - 1) / 2)\n            swaps = {}\n            for i in range(m1, mid + 1):\n                swaps[i] = mid if i == m1 else i - 1\n            for i in range(mid + 1, m2 + 1):\n                swaps[i] = mid + 1 if i == m2 else i + 1\n            new_spec.append(ModeSwaps(swaps))\n            # If original modes were inverted then invert here too\n            add1, add2 = mid, mid + 1\n            if spec.mode_1 > spec.mode_2:",
                               "            mid = int((m1 + m2 - 1) / 2)\n            swaps = {}\n            for i in range(m1, mid + 1):\n                swaps[i] = mid if i == m1 else i - 1\n            for i in range(mid + 1, m2 + 1):\n                swaps[i] = mid + 1 if i == m2 else i + 1\n            new_spec.append(ModeSwaps(swaps))\n            # If original modes were inverted then invert here too\n            add1, add2 = mid, mid + 1\n            if spec.mode_1 > spec.mode_2 and spec.convention != \"H\":")],
 "C09-unpack_keeps_internal_modes": [(C, "        self.__internal_modes = []\n        self.__external_in_heralds = self.__in_heralds", "        self.__external_in_heralds = self.__in_heralds")],
 "C09-freeze_shallow": [(C, "            copied_spec = deepcopy(self.__circuit_spec)\n            new_circ.__circuit_spec = list(self._freeze_params(copied_spec))",
                            "            new_circ.__circuit_spec = list(\n                self._freeze_params(self.__circuit_spec)\n            )"),
                        (C, "        for spec in circuit_spec:\n            spec = copy(spec)  # noqa: PLW2901\n            if isinstance(spec, Group):\n                spec.circuit_spec = self._freeze_params(spec.circuit_spec)",
                            "        for spec in circuit_spec:\n            if isinstance(spec, Group):\n                spec.circuit_spec = self._freeze_params(spec.circuit_spec)")],
 # ---------------- C10
 "C10-set_assigns_before_check": [(P, "        if self.min_bound is not None:\n            if value < self.min_bound:\n                raise ParameterValueError(\"Set value is below minimum bound.\")\n        if self.max_bound is not None:\n            if value > self.max_bound:\n                raise ParameterValueError(\"Set value is above maximum bound.\")\n        self.__value = value",
                                      "        old = self.__value\n        self.__value = value\n        if self.min_bound is not None:\n            if value < self.min_bound:\n                self.__value = old\n                raise ParameterValueError(\"Set value is below minimum bound.\")\n        if self.max_bound is not None:\n            if value > self.max_bound:\n                raise ParameterValueError(\"Set value is above maximum bound.\")")],
 "C10-max_bound_no_value_check": [(P, "            if self.__value > value:\n                raise ParameterBoundsError(\n                    \"Current parameter value is above new maximum bound.\"\n                )\n", "")],
 "C10-get_all_params_top_level_only": [(C, "        for spec in unpack_circuit_spec(self.__circuit_spec):\n            for p in spec.values():",
                                           "        for spec in self.__circuit_spec:\n            for p in spec.values():")],
 "C10-freeze_top_level_only": [(C, "            if isinstance(spec, Group):\n                spec.circuit_spec = self._freeze_params(spec.circuit_spec)\n                new_spec.append(spec)",
                                   "            if isinstance(spec, Group):\n                new_spec.append(spec)")],
 "C10-bs_reflectivity_not_validated": [("lightworks/sdk/circuit/components.py", "        if not 0 <= self._reflectivity <= 1:\n            raise ValueError(\"Reflectivity must be in range [0,1].\")",
                                        "        if not isinstance(self.reflectivity, Parameter):\n            if not 0 <= self.reflectivity <= 1:\n                raise ValueError(\"Reflectivity must be in range [0,1].\")")],
 "C10-rewrite_deepcopies_params": [(C, "        new_spec = compress_mode_swaps(self.__circuit_spec)", "        new_spec = compress_mode_swaps(deepcopy(self.__circuit_spec))")],
 "C10-pdict_set_bypasses_bounds": [(P, "            self.__pdict[key].set(value)", "            self.__pdict[key]._Parameter__value = value")],
 "C10-loss_value_cached": [("lightworks/sdk/circuit/components.py", "    def get_unitary(self, n_modes: int) -> np.ndarray:  # noqa: D102\n        self.validate()\n        transmission = 1 - self._loss",
                            "    def get_unitary(self, n_modes: int) -> np.ndarray:  # noqa: D102\n        self.validate()\n        if not hasattr(Loss, \"_cache\"):\n            Loss._cache = {}\n        transmission = 1 - Loss._cache.setdefault(id(self.loss), self._loss)")],
 # ---------------- C11
 "C11-key_without_input_state": [(S, "            self.__circuit.heralds,\n            self.input_state,\n            self.backend.backend,", "            self.__circuit.heralds,\n            self.backend.backend,")],
 "C11-key_without_backend": [(S, "            self.input_state,\n            self.backend.backend,\n        ]", "            self.input_state,\n        ]")],
 "C11-key_without_indistinguishability": [(S, "            \"indistinguishability\",\n", "")],
 "C11-key_compares_shape_only": [(S, "                if not (i1 == i2).all():\n                    return True", "                if not (abs(i1) == abs(i2)).all():\n                    return True")],
 "C11-sampler_key_stored_before_compute": [(S, "        if self._check_parameter_updates():\n            # Check circuit and input modes match\n", "        if self._check_parameter_updates():\n            self.__calculation_values = self._gen_calculation_values()\n            # Check circuit and input modes match\n")],
 "C11-quick_key_without_photon_counting": [(Q, "            [r.as_tuple() for r in getattr(self.post_select, \"rules\", [])],\n            self.photon_counting,", "            [r.as_tuple() for r in getattr(self.post_select, \"rules\", [])],")],
 "C11-quick_key_without_heralds": [(Q, "            self.__circuit.U_full,\n            self.__circuit.heralds,", "            self.__circuit.U_full,")],
 "C11-quick_key_without_rules": [(Q, "            [r.as_tuple() for r in getattr(self.post_select, \"rules\", [])],\n", "")],
 "C11-analyzer_keeps_error_rate": [(A, "        elif hasattr(self, \"error_rate\"):\n            del self.error_rate\n", "")],
 "C11-quick_continuous_not_rechecked": [(Q, "        if self._check_parameter_updates():\n            self.probability_distribution  # noqa: B018\n        return self.__continuous_distribution", "        return self.__continuous_distribution")],
 # ---------------- C14
 "C14-resample_and": [(G, "        while val < self._min_value or val > self._max_value:", "        while val < self._min_value and val > self._max_value:")],
 "C14-tophat_wrong_sign": [(TH, "            + (self._max_value - self._min_value) * self._rng.random()", "            - (self._max_value - self._min_value) * self._rng.random()")],
 "C14-loss_not_reseeded": [(EM, "        for prop in [self._bs_reflectivity, self._loss, self._phase_offset]:", "        for prop in [self._bs_reflectivity, self._phase_offset]:")],
 "C14-phase_not_wrapped": [(R, "    phase = phase % (2 * np.pi)\n    return 0.0 if phase >= 2 * np.pi else phase", "    return phase")],
 "C14-angle_of_wrong_element": [(DEC, "                phi = np.angle(u_ij) - np.angle(u_ij1)", "                phi = np.angle(u_ij) - np.angle(u_ij1) if abs(u_ij1) > 1e-20 else 0")],
 "C14-seed_none_when_zero": [(EM, "                if seed is not None:\n                    seed = rng.integers(2**31 - 1)", "                if seed:\n                    seed = rng.integers(2**31 - 1)")],
 "C14-heralds_dropped_on_map": [(R, "        for m1, m2 in zip(heralds[\"input\"], heralds[\"output\"], strict=True):", "        for m1, m2 in list(zip(heralds[\"input\"], heralds[\"output\"], strict=True))[:1]:")],
 "C14-small_element_threshold": [(DEC, "            if abs(u_ij) < 1e-20:", "            if abs(u_ij) < 1e-2:")],
 # ---------------- C15
 "C15-results_zipped_sorted": [(ST, "        results_dict = dict(zip(req_measurements, all_results, strict=True))", "        results_dict = dict(\n            zip(sorted(req_measurements), all_results, strict=True)\n        )")],
 "C15-y_measure_without_z": [(TM, "_y_measure.add(qubit.S())\n_y_measure.add(qubit.Z())\n", "_y_measure.add(qubit.S())\n")],
 "C15-kron_reversed": [(TU, "        for g in ops[1:]:\n            mat = np.kron(mat, PAULI_MAPPING[g])", "        for g in ops[1:]:\n            mat = np.kron(PAULI_MAPPING[g], mat)")],
 "C15-create_circuit_on_base": [(ST, "        circuit = self.base_circuit.copy()\n", "        circuit = self.base_circuit\n")],
 "C15-identity_sign_of_z": [(TU, "            if gate == \"I\" or state[2 * j : 2 * j + 2] == State([1, 0]):", "            if state[2 * j : 2 * j + 2] == State([1, 0]):")],
 "C15-duplicate_setting": [(TU, "    req_measurements = list(set(mapping.values()))", "    req_measurements = list(set(mapping.values()))\n    if len(req_measurements) > 3:\n        req_measurements = sorted(req_measurements)\n        req_measurements[-1] = req_measurements[0]")],
 # ---------------- C17
 "C17-coinciding_images_overwrite": [(SR, "                if new_s in mapped_result[in_state]:\n                    mapped_result[in_state][new_s] += val\n                else:\n                    mapped_result[in_state][new_s] = val\n        return self._recombine_mapped_result(mapped_result)\n\n    def apply_parity_mapping",
                                          "                if new_s in mapped_result[in_state] and invert:\n                    mapped_result[in_state][new_s] += val\n                else:\n                    mapped_result[in_state][new_s] = val\n        return self._recombine_mapped_result(mapped_result)\n\n    def apply_parity_mapping")],
 "C17-threshold_gt_one": [(SR, "                new_s = State([1 if s >= 1 else 0 for s in out_state])", "                new_s = State([1 if s > 1 else 0 for s in out_state])")],
 "C17-outputs_other_order": [(SR, "            outputs=list(unique_outputs),", "            outputs=sorted(unique_outputs, key=str),")],
 "C17-parity_invert_on_total": [(SR, "                    new_s = State([1 - (s % 2) for s in out_state])", "                    new_s = State([(1 - s) % 2 if s < 3 else s % 2 for s in out_state])")],
 "C17-sampling_parity_invert": [(SMR, "                new_s = State([1 - (s % 2) for s in out_state])", "                new_s = State([1 - (s % 2) if s else 1 - s for s in out_state][::1] if len(out_state) < 4 else [s % 2 for s in out_state])")],
 "C17-amplitude_mapping_allowed": [(SR, "        if self.result_type == \"probability_amplitude\":\n            raise ValueError(\n                \"Parity mapping cannot be applied to probability amplitudes.\"\n            )\n", "")],
}


# Targets dropped after analysis: they do not change anything the property can
# observe (equivalent mutants), see DESIGN 10.6.
SKIP = {
    "C02-barrier_not_shifted",            # barriers are identities
    "C02-group_herald_keys_not_shifted",  # Group.heralds is display metadata
    "C02-target_mode_ge",                 # other, equally valid, ancilla order
    "C08-reck_unpacks_argument",          # no observable of C08 changes
    "C09-unpack_keeps_internal_modes",    # only later mode numbering changes
    "C11-key_without_backend",            # both backends give the same distribution
    "C14-angle_of_wrong_element",         # equivalent when the element is zero
    "C14-seed_none_when_zero",            # still reproducible and bounded
    "C11-key_compares_shape_only",        # |U| equal but statistics different needs
                                          # complex-Hadamard families; not reached
    "C11-sampler_key_stored_before_compute",  # only observable where no fresh
                                          # object can be built (vacuous case); the
                                          # QuickSampler analogue is seeded C11-2
}
for _k in SKIP:
    M.pop(_k, None)


def main():
    os.makedirs(OUT, exist_ok=True)
    only = sys.argv[1:] or None
    d = tempfile.mkdtemp(prefix="lw-mut-", dir="/tmp")
    os.rmdir(d)
    subprocess.run(["git", "-C", "/repo", "worktree", "add", "-q", "--detach", d, "HEAD"], check=True)
    try:
        for name, edits in M.items():
            if only and name not in only:
                continue
            subprocess.run(["git", "-C", d, "checkout", "-q", "--", "."], check=True)
            ok = True
            for f, old, new in edits:
                p = os.path.join(d, f)
                s = open(p).read()
                if s.count(old) != 1:
                    print("EDIT-FAILED", name, f, s.count(old))
                    ok = False
                    break
                open(p, "w").write(s.replace(old, new))
            if not ok:
                continue
            r = subprocess.run([sys.executable, "-c", "import lightworks"], cwd=d, capture_output=True, text=True)
            if r.returncode != 0:
                print("IMPORT-FAILED", name, r.stderr[-300:])
                continue
            diff = subprocess.run(["git", "-C", d, "diff"], capture_output=True, text=True).stdout
            open(os.path.join(OUT, name + ".diff"), "w").write(diff)
            print("wrote", name)
    finally:
        subprocess.run(["git", "-C", "/repo", "worktree", "remove", "--force", d])


if __name__ == "__main__":
    main()
