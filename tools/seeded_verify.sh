#!/bin/bash
# usage: tools/seeded_verify.sh <dir with patch.diff demo.py meta.json> <PROP> [runs] [notests]
# Confirms a seeded change in a scratch worktree: demo passes on clean tree,
# fails with the change, full test suite passes with the change; then runs the
# property's quick check against the changed tree.  Prints a JSON summary line.
set -u
src=$(realpath "$1"); prop=$2; runs=${3:-}; notests=${4:-}
d=$(mktemp -d /tmp/lw-seed-XXXXXX); rmdir "$d"
git -C /repo worktree add -q --detach "$d" HEAD || exit 3
mkdir -p "$d/_seeded/x"; cp "$src/demo.py" "$d/_seeded/x/demo.py"
cd "$d"
timeout 600 /venv/bin/python _seeded/x/demo.py > $d.clean.log 2>&1; clean=$?
if ! git apply "$src/patch.diff"; then echo "PATCH-FAILED"; cd /; git -C /repo worktree remove --force "$d"; exit 3; fi
timeout 600 /venv/bin/python _seeded/x/demo.py > $d.mut.log 2>&1; mut=$?
tests="skipped"
if [ -z "$notests" ]; then
  tests=$(timeout 1200 /venv/bin/python -m pytest -q -p no:cacheprovider --timeout=900 -x 2>&1 | tail -1)
fi
cd /verif
LABSIM_REPO="$d" ./check "$prop" quick ${runs:+--runs $runs} --no-selfcheck > $d.check.log 2>&1; rc=$?
grep -E "^VIOLATION|^  class|^KNOWN|^OK|^HARNESS|^runs=" $d.check.log | head -12
git -C /repo worktree remove --force "$d"; rm -f "$d".clean.log "$d".mut.log; mv "$d".check.log /tmp/last_check_$(basename "$src").log
echo "SUMMARY {\"demo_clean_exit\": $clean, \"demo_mutant_exit\": $mut, \"tests\": \"$tests\", \"check_exit\": $rc}"
