#!/venv/bin/python
"""Regenerates /verif/MANIFEST.json (kept valid at all times)."""
import json, subprocess

NA = {
 "C01": "U/U_full are a pure function of the construction program: no PRNG, callback, cache, order or failure path is involved, so a schedule or fault has nothing to vary (DESIGN 5); placement on circuits with ancillas is C02's clause and is decided there",
 "C03": "Simulator.simulate is stateless and deterministic - a Fock-space identity over inputs; nothing for a scheduler or fault injector to vary (DESIGN 5)",
 "C04": "the ideal-source distribution is a pure function of (circuit, input, backend, settings); its caching is C11's, its use in sampling C07's (DESIGN 5)",
 "C05": "compares four stateless computations at one instant; nothing depends on order, seed or history (DESIGN 5)",
 "C06": "a polynomial identity in three continuous parameters over all inputs; the only set iteration on the code path cannot influence a result (DESIGN 5)",
 "C12": "conversion is a pure function of the qiskit circuit; the one history effect (shared gate instances altered by earlier conversions) is C08's and is checked there with the real gate maps in the pool (DESIGN 5)",
 "C13": "fixed matrices and their angle dependence; no state, seed or callback (DESIGN 5)",
 "C16": "a numerical identity over unitaries (Choi matrix, CPTP, fidelity formula) with no ordering, seed or protocol clause; simulation could only decide independence from measurement order, not the property (DESIGN 5)",
 "C18": "value semantics and algebraic laws of immutable objects; each seeded helper builds its own generator from the seed, so there is no shared stream for a history to disturb (DESIGN 5)",
 "C19": "whether a drawing is produced is a function of the circuit and the options; the 'leaves the circuit unchanged' clause is covered under C08, where both display back-ends are scheduled as side-effect-free operations (DESIGN 5)",
}
CHECKS = {
 "C02": ("deterministic simulation: seeded histories of add/herald/primitive calls on shared parents; step-by-step refinement against a labelled-mode wiring model (own Ryser permanent)",
         "Seeded search over construction histories (orders of additions to the same parent, nesting, grouping, herald declaration orders, in!=out heralds, occasional rejected adds); after each step the heralded transition amplitudes of the real circuit must equal those of an executable wiring model composed by the words of the property (computed from U_full/heralds with the harness's permanent, and for a sample of pairs also read through Simulator.simulate).",
         "Trusted: component matrices and flat-circuit unitaries are taken from the real code (C01's matter); the harness's Ryser permanent and wiring model; amplitudes sampled (all single-photon pairs, seeded multi-photon pairs)."),
 "C07": ("deterministic simulation with PRNG-stream fault injection; exact per-call checks, same-seed-twice pairs around injected PRNG perturbations, Bernstein-bounded comparison with an independent detector-pipeline model",
         "Seeded lab sessions with long-lived samplers sharing detectors and the process-global PRNG stream; every sampling call is checked exactly (heralds, post-selection against the rules the harness saw accepted, min_detection, threshold, counts; an undocumented exception on a valid configuration is a failure to return), seeded calls are issued twice around PRNG perturbations, and frequencies are compared with the sampler's own distribution pushed through an independent model of the documented detector pipeline (Bernstein bound, delta=1e-9 per batch).",
         "Trusted: the sampler's own probability_distribution is taken as given (C04/C05); statistical part has false-alarm probability <= 1e-9 per batch over the choice of VERIF_SEED; all seeds derive from VERIF_SEED so the verdict is repeatable."),
 "C08": ("deterministic simulation with fault injection: seeded schedule of API calls by several clients on shared objects + catalogue of rejected calls; frame-condition invariant after every step",
         "Seeded search over histories in which the same circuit objects (including the module-level shared gate instances) are reused as arguments; after every step every circuit/state that is not a declared target must be bit-identical, and after a call that raised nothing at all may have changed; argument circuits must also answer a fixed follow-up program as before (state the four observables do not show), and caller-side mutation of an array handed over earlier (no library call) may change nothing.",
         "Trusted: the harness's declaration of targets per operation (DESIGN Appendix A), numpy equality, fork isolation between runs."),
 "C09": ("deterministic simulation: rewrites scheduled between other clients' steps, including under live consumers; invariance + sharing checks by later mutation",
         "Seeded histories in which rewrites and (frozen) copies are applied to circuits other parties hold; U_full/heralds/sizes before vs after (1e-9), structure postconditions, parameter list of the original around copy(), bit-identity of every copy-related object under later mutation of the other, an un-rewritten twin followed through later parameter updates, unchanged later behaviour of heralded relatives, and unchanged component layout of every other circuit around each rewrite or copy.",
         "Trusted: obs() of circuits through the public API; structure postconditions read _get_circuit_spec(). The 'U unchanged' clause is sampled by the histories produced, nothing more."),
 "C10": ("deterministic simulation with fault injection (rejected updates, poison/heal): parameter-triple model, constant-twin refinement, parameter-list check after every step",
         "Seeded interleavings of parameter updates (direct, through ParameterDict, bounds, rejected ones, component-invalid 'poison' values and their healing) with construction, copying, freezing, rewriting and reads; every circuit with parameters is compared after every step with a twin rebuilt from its construction log with constants.",
         "Trusted: the construction log kept by the harness and the twin builder (plain lightworks calls without Parameter objects)."),
 "C11": ("deterministic simulation with fault injection (poison/heal, failing predicates, rejected setters): fresh-object comparator piggy-backed on the clients' own reads and sampling calls",
         "Seeded reconfiguration histories of long-lived Sampler/QuickSampler/Analyzer objects (reassignment, in-place edits of circuit/parameters/source/detector/post-selection, herald variants with equal unitary); each read/sample/analyse is compared with a freshly built object holding the same settings (with freshly created Source/Detector/PostSelection components), a sample of reads also with a pristine process forked before the run's first operation; a setter that raises may change no setting, and no operation may change the settings of a consumer it does not address; the monitor itself never reads the long-lived object.",
         "Trusted: both sides run the same library code, so what the distribution is (C04-C06) is not judged; seeded calls and a shared PRNG stream state make the comparison exact."),
 "C14": ("deterministic simulation with PRNG fault injection: shared stateful Distribution objects, interleaved draws/reseeds/other maps, scripted generators; bounds/seed/structure/unitary invariants per map",
         "Seeded histories of Reck.map calls sharing ErrorModel and Distribution objects with interleaved draws, reseeds, reconfigurations and scripted generator streams (k out-of-bounds normals then an in-bounds one; uniform edge draws); per map: structure, phases in [0,2pi), drawn values within declared bounds, contraction/unitarity, default model reproduces U, same seed+configuration => identical mapped circuit.",
         "Trusted: mapped components read through _get_circuit_spec(); 'reproduces any unitary' is evaluated on the lossless circuits the histories produce (sampling of inputs by histories)."),
 "C15": ("deterministic simulation of the tomography protocol: simulated QPU as the experiment callback (reorders, rewrites handed circuits, fails and is retried), simulator-owned set iteration order, reconstruction against own amplitudes",
         "Seeded sessions in which the experiment callback is a simulated device computing exact outcome probabilities with the harness's own permanent; the order in which measurement settings are handed over is a simulator-owned permutation (SimSet seam) re-drawn per process() and cross-checked under real PYTHONHASHSEED values; protocol, reconstruction (rho = psi psi^dagger, fidelity 1), order independence, failed-attempt/retry and frame conditions are checked.",
         "Trusted: the QPU stub's amplitudes (harness permanent on the public U_full/heralds); base circuits are built on 2n visible modes with heralded parts added as sub-circuits (no free-standing heralds on the base itself)."),
 "C17": ("deterministic simulation of hash-order nondeterminism: simulator-owned set iteration order for the mapped-result column order; indexing/mapping/conservation oracles under several permutations",
         "Seeded results (from emulator clients and synthetic) mapped with threshold/parity (plain/inverted) under simulator-chosen set iteration orders, twice per call under two orders; pair/nested/array indexing consistency, images, added weights, row totals, repeated-application laws and refusal for amplitudes.",
         "Trusted: SimSet stands in for the builtin set in the four modules that iterate one; cross-checked in fresh interpreters under real PYTHONHASHSEED values without it via digest equality. Content generation is plain seeded generation."),
}
checks = []
for pid in sorted(CHECKS):
    tech, text, note = CHECKS[pid]
    checks.append({
        "property_id": pid,
        "quick_cmd": f"./check {pid} quick",
        "thorough_cmd": f"./check {pid} thorough",
        "evidence_file": f"evidence/{pid}.json",
        "replay_cmd_template": "./check --replay {path}",
        "engine": "labsim",
        "technique": tech,
        "level_claimed": {"category": "exploration", "text": text + " A clean batch is evidence, not proof.", "design_ref": f"DESIGN.md section 4 ({pid})"},
        "level_note": note,
    })
m = {
 "version": 1,
 "setup_cmd": "./check setup",
 "hooks": {
  "guard": "LIGHTWORKS_VERIF",
  "enable": "none needed: every seam is a module-level name rebound from the harness process (DESIGN 3.4); the guard name is reserved and unused, /repo carries no hook commits",
  "baseline_off_cmd": "cd /repo && /venv/bin/python -m pytest -ra -q -p no:cacheprovider --timeout=900 --continue-on-collection-errors",
  "source_commits": [],
  "add_only": True,
 },
 "engines": [{"name": "labsim", "path": "labsim/", "serves_properties": sorted(CHECKS),
   "kind_free_text": "deterministic simulation with fault injection: one seeded scheduler drives logical clients over pools of real lightworks objects in one process, one public API call per step; operations are JSON data; every run in its own forked child; delta-debugging minimiser; replay in a fresh interpreter"}],
 "checks": checks,
 "not_applicable": [{"property_id": k, "reason": v} for k, v in sorted(NA.items())],
 "notes": "All checks: exit 0 = held (KNOWN-FINDING lines for listed findings), 1 = VIOLATION property=<id> replay=<path> (after the minimised replay reproduced in a fresh interpreter), 2 = harness error. `./check selftest [quick|thorough]` runs the determinism and sensitivity self-tests. Genuine defects repaired in /repo as 'fix:' commits are listed in known_findings.json ('fixed' entries suppress nothing).",
}
json.dump(m, open("/verif/MANIFEST.json", "w"), indent=1)
import jsonschema
jsonschema.validate(m, json.load(open("/root/.vp/MANIFEST.schema.json")))
print("MANIFEST ok", len(checks), "checks", len(m["not_applicable"]), "n/a")
